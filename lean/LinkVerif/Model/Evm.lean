/-
C20 — the metering skeleton of vm/evm (interpreter.go `Run`, evm.go `Call/CallCode/DelegateCall/StaticCall/create`).

Part A (`Model.Evm`): a generic METERED machine over the jump table that `NewInterpreter` installs
(`Gen.EvmTable.rows`, regenerated from vm/evm/jump_table.go on every check).  Opcode semantics are parameters
(`Sem`): the gas function, `execute`, and — for the call family — the request handed to `evm.Call…`.  What the
interpreter loop and the call wrappers do with gas, pc, the stack bound, snapshots and the `Issued` channel is
modelled as the code does it today, including the un-metered `decimals()` static call (`GetUTXOChangeRate`,
`staticCallSimulateGas`) that follows a frame which consumed an ISSUE token.

Part B (`Model.Evm.Trace`): the executable step relation used by the driver to validate the implementation's own
tracer output (`CaptureState/CaptureFault`) line by line against the table.

Core Lean only.
-/
import LinkVerif.Gen.EvmTable

namespace Model.Evm
open Gen.EvmTable

/-- `in.cfg.JumpTable[op]` restricted to `valid` entries (`if !operation.valid { return … invalid opcode }`) -/
def lookup (op : Nat) : Option Row := rows.find? (fun r => r.op == op && r.valid)

/-- `Contract.GetOp`: past the end of the code the op is STOP (0) -/
def getOp (code : List Nat) (pc : Nat) : Nat := code.getD pc 0

/-- the execute functions that enter `evm.Call/CallCode/DelegateCall/StaticCall/Create/Create2` -/
def isCallFamily (r : Row) : Bool := r.kind == 1 || r.kind == 2
def isCreateFamily (r : Row) : Bool := r.kind == 3
def entersFrame (r : Row) : Bool := isCallFamily r || isCreateFamily r
def isIssue (r : Row) : Bool := r.kind == 4
def isStaticCallOp (r : Row) : Bool := r.kind == 2
def isPlainCallOp (r : Row) : Bool := r.op == 0xf1   -- `op == CALL` in enforceRestrictions

/-- `validateStack` = `makeStackFunc(pop, push)`: `require(pop)` and `len + push - pop ≤ StackLimit` -/
def stackOk (r : Row) (len : Nat) : Bool := r.pop ≤ len && len + r.push ≤ stackLimit + r.pop

inductive Status | ok | reverted | failed | outOfFuel
deriving DecidableEq, Repr, Inhabited

/-- the `Issued` channel (capacity 1): empty, or holding `true` (sent by ISSUE) or `false` (sent by
    `GetUTXOChangeRate` before its static call) -/
abbrev Token := Option Bool

/-- what a call wrapper (`evm.Call` …) hands back to `opCall` … -/
structure CallRes (W : Type) where
  status : Status
  gas : Nat          -- `contract.Gas` returned as leftOverGas
  world : W
  iss : Token        -- what is left in the `Issued` channel

/-- the request an executing call-family / create-family op makes -/
structure CallReq (W : Type) where
  /-- gas handed to the callee (`callGasTemp` + stipend, or the gas `opCreate` takes) -/
  fwd : Nat
  /-- gas `execute` itself removes from the caller with `contract.UseGas` (CREATE/CREATE2; 0 for the call family,
      whose forwarded gas is part of the step's cost) -/
  take : Nat
  /-- the world at the call, after what happens BEFORE the snapshot (CREATE's caller-nonce bump) -/
  world : W
  /-- refused before the snapshot: `some keep` (ErrInsufficientBalance keeps the gas, ErrContractAddressCollision
      returns 0) -/
  refuse : Option Bool
  /-- after the snapshot: CreateAccount, value transfer, SetNonce(1) -/
  enter : W → W
  code : List Nat
  /-- the wrapper is `evm.StaticCall` -/
  static : Bool
  /-- after a successful run: `create` charges the code deposit and stores the code (`none` = ErrCodeStoreOutOfGas or
      max code size); the call family returns `(gas, world)` unchanged -/
  finish : Nat → W → Option (Nat × W)
  /-- code run by `GetUTXOChangeRate(contract.Address())` -/
  simCode : W → List Nat

inductive Exec (W L : Type)
  | err                                            -- execute returned an error other than ExecutionReverted
  | revertErr                                      -- execute returned ExecutionReverted (TRANSFERTOKEN)
  | next (l : L) (w : W) (jump : Option Nat)        -- done; `jump = some t`: a taken JUMP/JUMPI
  | call (req : CallReq W) (k : CallRes W → L)     -- enters a frame; `k` rebuilds stack/memory from the result

/-- the opcode semantics the skeleton is generic in -/
structure Sem (W L : Type) where
  stackLen : L → Nat
  /-- `operation.gasCost` (memory size overflow included): `none` = error, reported as ErrOutOfGas -/
  gasCost : Row → L → W → Nat → Option Nat
  /-- the value test of `enforceRestrictions` (`op == CALL && stack.Back(2).BitLen() > 0`) -/
  callHasValue : Row → L → Bool
  exec : Row → Nat → Nat → L → W → Exec W L
  /-- fresh stack and memory -/
  l0 : L
  /-- does the `decimals()` answer decode (`UTXOChangeRateResultDecodeEVM`, `UTXOChangeRateFromUint8`) -/
  rateOk : Status → W → Bool

structure Frame (W L : Type) where
  code : List Nat
  pc : Nat
  gas : Nat
  l : L
  w : W
  static : Bool      -- `in.readOnly`
  iss : Token

structure FrameRes (W : Type) where
  status : Status
  gas : Nat
  world : W
  iss : Token

inductive StepRes (W L : Type)
  | cont (f : Frame W L)
  | halt (r : FrameRes W)

/-- `evm.Call…` one level deeper: request, the caller's `readOnly`, the channel -/
abbrev SubCall (W : Type) := CallReq W → Bool → Token → CallRes W

variable {W L : Type}

/-- `select { case evm.Issued <- true: default: }` -/
def sendIssued (t : Token) : Token := match t with | none => some true | some b => some b

/-- one iteration of the loop in `Interpreter.Run`; `sub` is `evm.Call…` one level deeper -/
def step (sem : Sem W L) (sub : SubCall W) (f : Frame W L) : StepRes W L :=
  let fail : StepRes W L := .halt { status := .failed, gas := f.gas, world := f.w, iss := f.iss }
  match lookup (getOp f.code f.pc) with
  | none => fail                                                        -- invalid opcode
  | some r =>
    if !stackOk r (sem.stackLen f.l) then fail                          -- validateStack
    else if f.static && (r.writes || (isPlainCallOp r && sem.callHasValue r f.l)) then fail   -- errWriteProtection
    else
      match sem.gasCost r f.l f.w f.gas with
      | none => fail                                                    -- gas error ⇒ ErrOutOfGas
      | some c =>
        let c := match r.gasConst with | some k => k | none => c        -- constant-priced entries ignore the state
        if f.gas < c then fail                                          -- UseGas fails ⇒ ErrOutOfGas
        else
          let g1 := f.gas - c
          match sem.exec r f.pc g1 f.l f.w with
          | .err => .halt { status := .failed, gas := g1, world := f.w, iss := f.iss }
          | .revertErr => .halt { status := .reverted, gas := g1, world := f.w, iss := f.iss }
          | .next l' w' jmp =>
            let iss' := if isIssue r then sendIssued f.iss else f.iss
            if r.reverts then .halt { status := .reverted, gas := g1, world := w', iss := iss' }
            else if r.halts then .halt { status := .ok, gas := g1, world := w', iss := iss' }
            else
              let pc' := if r.jumps then jmp.getD (f.pc + 1) else f.pc + 1 + r.pcAdv
              .cont { f with pc := pc', gas := g1, l := l', w := w', iss := iss' }
          | .call req k =>
            if !entersFrame r then fail     -- only the six call/create ops reach evm.Call…; unreachable for a faithful Sem
            else
              -- `contract.UseGas(take)`; the callee never gets more than was paid for it (law of the six ops, checked
              -- on every traced call by Part B: `child-gas-exceeds-what-was-paid`)
              let take := min req.take g1
              let fwd := min req.fwd (c + take)
              let res := sub { req with fwd := fwd, take := take } f.static f.iss
              let g2 := g1 - take + min res.gas fwd          -- `contract.Gas += returnGas` (the clamp is a no-op: `Props.C20.gas_bounded`)
              if r.reverts then .halt { status := .reverted, gas := g2, world := res.world, iss := res.iss }
              else if r.halts then .halt { status := .ok, gas := g2, world := res.world, iss := res.iss }
              else .cont { f with pc := f.pc + 1 + r.pcAdv, gas := g2, l := k res, w := res.world, iss := res.iss }

/-- the loop, with explicit fuel -/
def runFrame (sem : Sem W L) (sub : SubCall W) : Nat → Frame W L → FrameRes W
  | 0, f => { status := .outOfFuel, gas := f.gas, world := f.w, iss := f.iss }
  | n + 1, f =>
    match step sem sub f with
    | .halt r => r
    | .cont f' => runFrame sem sub n f'

/-- the termination measure of one frame: `(gas, |code| - pc)` lexicographically, folded into one number -/
def frameMeasure (f : Frame W L) : Nat := f.gas * (f.code.length + 1) + (f.code.length - f.pc)

/-- fuel that always suffices (theorem `Props.C20.frame_terminates`) -/
def fuelFor (code : List Nat) (gas : Nat) : Nat := gas * (code.length + 1) + code.length + 1

/-- journalled world: snapshots and revert (statedb.go; C09 is about this) -/
structure Journal (W : Type) where
  Snap : Type
  snap : W → Snap
  revertTo : W → Snap → W

/-- does the wrapper's `select` on the `Issued` channel lead to `GetUTXOChangeRate`: every wrapper but StaticCall
    ignores the VALUE of the token (`case <-evm.Issued:`), StaticCall reads it (`case needCheck := <-evm.Issued`) -/
def triggersRate (static : Bool) (t : Token) : Bool :=
  match t with
  | none => false
  | some b => !static || b

/-- create: the code deposit after a successful run (`contract.UseGas(createDataGas)`, `SetCode`) -/
def afterDeposit (req : CallReq W) (r : FrameRes W) : FrameRes W :=
  if r.status == .ok then
    match req.finish r.gas r.world with
    | some (g, w) => { r with gas := min g r.gas, world := w }
    | none => { r with status := .failed }
  else r

/-- `select { case <-evm.Issued: if err == nil { GetUTXOChangeRate(contract.Address()) } default: }`.
    GetUTXOChangeRate sends `false` on the channel and makes an UN-METERED `StaticCall` with `staticCallSimulateGas`
    at the same depth (`sim`).  That static call's own select drains whatever token is left when it returns; a `true`
    token cannot be there (ISSUE is a `writes` entry and the frame is read-only: `Props.C20.issue_writes`). -/
def afterSelect (sem : Sem W L) (J : Journal W) (static : Bool) (sim : W → FrameRes W) (r : FrameRes W) : FrameRes W :=
  if triggersRate static r.iss && r.status == .ok then
    let snap2 := J.snap r.world
    let s := sim r.world
    let w2 := if s.status == .ok then s.world else J.revertTo s.world snap2
    if sem.rateOk s.status w2 then { r with world := w2, iss := none }
    else { r with status := .reverted, world := w2, iss := none }
  else { r with iss := none }      -- the select drains the channel (or finds it empty)

/-- `if err != nil { RevertToSnapshot(snapshot); if err != ExecutionReverted { contract.UseGas(contract.Gas) } }` -/
def settle (J : Journal W) (snapshot : J.Snap) (r : FrameRes W) : CallRes W :=
  match r.status with
  | .ok => { status := .ok, gas := r.gas, world := r.world, iss := r.iss }
  | .reverted => { status := .reverted, gas := r.gas, world := J.revertTo r.world snapshot, iss := r.iss }
  | st => { status := st, gas := 0, world := J.revertTo r.world snapshot, iss := r.iss }

/-- `evm.Call / CallCode / DelegateCall / StaticCall / create` with a depth budget
    (`evm.depth > CallCreateDepth ⇒ ErrDepth`) -/
def callAt (sem : Sem W L) (J : Journal W) : Nat → SubCall W
  | 0, req, _, iss => { status := .failed, gas := req.fwd, world := req.world, iss := iss }   -- ErrDepth, gas handed back
  | n + 1, req, ro, iss =>
    match req.refuse with
    | some keep => { status := .failed, gas := if keep then req.fwd else 0, world := req.world, iss := iss }
    | none =>
      let run := fun (code : List Nat) (gas : Nat) (w : W) (static : Bool) (iss : Token) =>
        runFrame sem (callAt sem J n) (fuelFor code gas)
          { code := code, pc := 0, gas := gas, l := sem.l0, w := w, static := static, iss := iss }
      -- snapshot, then CreateAccount / Transfer, then run
      let r := run req.code req.fwd (req.enter req.world) (ro || req.static) iss
      let r := afterDeposit req r
      let r := afterSelect sem J req.static (fun w => run (req.simCode w) simulateGas w true (some false)) r
      settle J (J.snap req.world) r

/-! ### the fee ledger of `Interpreter.Run` (`evm.fees`, `feeSaved`) on a step that cannot pay -/

/-- `if !contract.UseGas(cost) { if feeSaved { realCost := cost - fees[last]; fees = fees[:last];
    if contract.Gas > realCost { fees = append(fees, contract.Gas - realCost) } } }` (uint64 arithmetic is exact here:
    the fee is a summand of `cost`) -/
def oogFees (fees : List Nat) (gas cost : Nat) : List Nat :=
  match fees.reverse with
  | [] => fees
  | fee :: rest =>
    let realCost := cost - fee
    if gas > realCost then (rest.reverse) ++ [gas - realCost] else rest.reverse

/-! ## Part B — validating the implementation's tracer output -/
namespace Trace

/-- quadratic memory price of `memoryGasCost` for a size that is a multiple of 32 -/
def memFee (size : Nat) : Nat :=
  let words := (size + 31) / 32
  words * memoryGas + words * words / quadCoeffDiv

/-- the least price of the dynamic gas functions the model knows by name (memory expansion excluded) -/
def dynFloor (fn : String) : Nat :=
  if fn == "gasCall" || fn == "gasCallCode" || fn == "gasDelegateCall" || fn == "gasStaticCall" then gtCalls
  else if fn == "gasCreate" then createGas
  else if fn == "gasCreate2" then create2Gas
  else if fn == "gasSha3" then sha3Gas
  else if fn == "gasExp" then gasSlowStep
  else if fn == "gasSStore" then min sstoreSetGas (min sstoreClearGas sstoreResetGas)
  else if fn == "gasExtCodeCopy" then gtExtcodeCopy
  else if fn == "gasMLoad" || fn == "gasMStore" || fn == "gasMStore8" || fn == "gasCallDataCopy" || fn == "gasCodeCopy"
       || fn == "gasReturnDataCopy" then gasFastestStep
  else if fn == "makeGasLog0" then logGas
  else if fn == "makeGasLog1" then logGas + logTopicGas
  else if fn == "makeGasLog2" then logGas + 2 * logTopicGas
  else if fn == "makeGasLog3" then logGas + 3 * logTopicGas
  else if fn == "makeGasLog4" then logGas + 4 * logTopicGas
  else 0     -- gasReturn, gasRevert, gasSuicide, gasTransferToken: may be 0

/-- `codeBitmap`: positions that are opcodes (not PUSH data) -/
def codePositions (code : Array Nat) : Array Bool := Id.run do
  let mut out : Array Bool := Array.replicate code.size false
  let mut pc := 0
  for _ in [0:code.size] do
    if pc < code.size then
      out := out.set! pc true
      let adv := match lookup (code.getD pc 0) with | some r => r.pcAdv | none => 0
      -- PUSHn data is skipped whether or not the table knows the op: analysis.go keys on the PUSH1..PUSH32 range
      let op := code.getD pc 0
      let adv := if 0x60 ≤ op && op ≤ 0x7f then op - 0x5f else adv
      pc := pc + 1 + adv
  return out

structure Prev where
  pc : Nat
  row : Row
  gas : Nat
  cost : Nat
  st : Nat
  mem : Nat
  /-- entry gas of the frame this step entered, once seen -/
  child : Option Nat := none
  /-- a `decimals()` frame was seen after this step -/
  sim : Bool := false
deriving Inhabited

inductive Fin | running | ok | err
deriving DecidableEq, Inhabited

structure TFrame where
  depth : Nat
  code : Array Nat
  dests : Array Bool
  ro : Bool
  gas0 : Nat
  isSim : Bool
  prev : Option Prev := none
  fin : Fin := .running
deriving Inhabited

structure TState where
  gas : Nat := 0
  create : Bool := false
  frames : List TFrame := []        -- innermost first
  /-- over-approximation of the `Issued` channel: a `true` (ISSUE) / `false` (GetUTXOChangeRate) token may be pending -/
  mayT : Bool := false
  mayF : Bool := false
  /-- the last root-level frame that ended: (fin, gas after its last step, was it the decimals() frame) -/
  rootDone : Option (Fin × Nat × Bool) := none
  rootSeen : Bool := false
  rootSim : Bool := false
  dead : Bool := false              -- after the first bad line the rest of the run is not judged
deriving Inhabited

def gasAfter (p : Prev) : Nat := p.gas - p.cost

/-- frames deeper than `d` have returned: drop them (their return drains the Issued token) -/
def popTo (s : TState) (d : Nat) : TState :=
  let deeper := s.frames.filter (fun f => f.depth > d)
  { s with frames := s.frames.filter (fun f => f.depth ≤ d), mayT := if deeper.isEmpty then s.mayT else false,
           mayF := if deeper.isEmpty then s.mayF else false }

def isJumpDest (f : TFrame) (pc : Nat) : Bool := f.dests.getD pc false && f.code.getD pc 0 == 0x5b

/-- `enter d=… gas=… ro=… code=…`: a new interpreter frame was seen -/
def enter (s : TState) (d g : Nat) (code : Array Nat) : TState × String :=
  if d == 0 then (s, "bad:depth0") else
  -- frames at depth ≥ d have ended; remember how the one at depth d ended
  let same := s.frames.find? (fun f => f.depth == d)
  let (mayT, mayF) := (s.mayT, s.mayF)
  let s1 := popTo s d
  let s1 := { s1 with frames := s1.frames.filter (fun f => f.depth < d) }
  let mk (isSim ro : Bool) : TFrame := { depth := d, code := code, dests := codePositions code, ro := ro, gas0 := g, isSim := isSim }
  -- `staticWrapper`: the frame whose return runs the select was entered through evm.StaticCall (it reads the token's value)
  let simOk (prevFrame : Option TFrame) (staticWrapper : Bool) : Bool :=
    (mayT || (mayF && !staticWrapper)) && g == simulateGas && (match prevFrame with | some f => f.fin == .ok && !f.isSim | none => true)
  if d == 1 then
    match same with
    | none =>
      if s.rootSeen then
        if s.rootSim then (s1, "bad:second-root-frame")
        else if simOk none false && (match s.rootDone with | some (.ok, _, _) => true | _ => false) then
          ({ s1 with frames := [mk true true], mayT := false, mayF := true, rootSim := true }, "ok")
        else (s1, "bad:unexplained-root-frame")
      else if g == s.gas then ({ s1 with frames := [mk false false], rootSeen := true }, "ok")
      else (s1, "bad:root-gas")
    | some f =>
      if f.fin == .running then (s1, "bad:frame-replaced-while-running")
      else if !s.rootSim && simOk (some f) false then
        ({ s1 with frames := [mk true true], mayT := false, mayF := true, rootSim := true,
                   rootDone := some (f.fin, (f.prev.map gasAfter).getD f.gas0, f.isSim) }, "ok")
      else (s1, "bad:unexplained-root-frame")
  else
    match s1.frames with
    | [] => (s1, "bad:no-parent")
    | p :: rest =>
      if p.depth + 1 != d then (s1, "bad:depth-skip")
      else if p.fin != .running then (s1, "bad:parent-ended")
      else match p.prev with
        | none => (s1, "bad:parent-has-no-step")
        | some pv =>
          if !entersFrame pv.row then (s1, "bad:frame-without-call-op")
          else if pv.sim then (s1, "bad:frame-after-decimals-call")
          else
            let bound := if isCallFamily pv.row then pv.cost else gasAfter pv
            let ro := p.ro || isStaticCallOp pv.row
            let asChild := pv.child.isNone && same.isNone && g ≤ bound
            if asChild then
              ({ s1 with frames := mk false ro :: { p with prev := some { pv with child := some g } } :: rest, mayT := mayT, mayF := mayF }, "ok")
            else if simOk same (isStaticCallOp pv.row) then
              ({ s1 with frames := mk true true :: { p with prev := some { pv with sim := true } } :: rest, mayT := false, mayF := true }, "ok")
            else if pv.child.isNone && same.isNone && !(g ≤ bound) then (s1, "bad:child-gas-exceeds-what-was-paid")
            else (s1, "bad:unexplained-frame")

/-- is a pre-execution error (`CaptureState` with `err != nil`) explained by the table -/
def errJustified (f : TFrame) (op gas st : Nat) : Bool :=
  match lookup op with
  | none => true
  | some r =>
    !stackOk r st || (f.ro && (r.writes || isPlainCallOp r)) ||
    (match r.gasConst with
     | some c => gas < c
     | none => true)       -- a dynamic price may exceed any gas (callGas, memory, overflow)

/-- `s d=… pc=… op=… gas=… cost=… st=… mem=… err=…` -/
def stepLine (s : TState) (d pc op gas cost st mem : Nat) (err : Bool) : TState × String :=
  let s := popTo s d
  match s.frames with
  | [] => (s, "bad:step-without-frame")
  | f :: rest =>
    if f.depth != d then (s, "bad:step-without-frame")
    else if f.fin != .running then (s, "bad:step-after-end")
    else if op != f.code.getD pc 0 then (s, "bad:op-is-not-code-at-pc")
    else
      -- continuity with the previous step of this frame
      let contErr : Option String :=
        match f.prev with
        | none =>
          if pc != 0 then some "first-pc" else if gas != f.gas0 then some "first-gas" else if st != 0 then some "first-stack" else none
        | some pv =>
          let r := pv.row
          let pcOk : Bool :=
            if r.jumps then (isJumpDest f pc || (r.kind == 6 && pc == pv.pc + 1))
            else pc == pv.pc + 1 + r.pcAdv
          let gasOk : Bool :=
            if isCallFamily r then
              match pv.child with
              | some g0 => decide (gasAfter pv ≤ gas) && decide (gas ≤ gasAfter pv + g0)
              | none => decide (gasAfter pv ≤ gas) && decide (gas + gtCalls ≤ pv.gas)   -- stipend < CallValueTransferGas
            else if isCreateFamily r then decide (gas ≤ gasAfter pv)
            else gas == gasAfter pv
          if !pcOk then some "pc" else if !gasOk then some "gas-not-previous-minus-cost"
          else if st + r.pop != pv.st + r.push then some "stack-delta"
          else if mem < pv.mem then some "memory-shrank" else none
      match contErr with
      | some e => (s, "bad:" ++ e)
      | none =>
        let pmem := match f.prev with | some pv => pv.mem | none => 0
        if err then
          if errJustified f op gas st then
            -- the frame fails; all its gas is consumed by the caller's wrapper
            let f' := { f with fin := .err, prev := f.prev }
            ({ s with frames := f' :: rest }, "ok")
          else (s, "bad:unjustified-error")
        else
          match lookup op with
          | none => (s, "bad:invalid-op-executed")
          | some r =>
            if !stackOk r st then (s, "bad:stack-bounds")
            else if f.ro && r.writes then (s, "bad:write-in-static")
            else if cost > gas then (s, "bad:cost-exceeds-gas")
            else if mem % 32 != 0 then (s, "bad:memory-size")
            else if mem > pmem && !r.hasMem then (s, "bad:memory-grew-without-memorySize")
            else
              let memDelta := memFee mem - memFee pmem
              let priceOk := match r.gasConst with
                | some c => cost == c
                | none => cost ≥ dynFloor r.gasFn + (if r.gasFn == "gasTransferToken" then 0 else memDelta)
              if !priceOk then (s, "bad:price")
              else
                let pv : Prev := { pc := pc, row := r, gas := gas, cost := cost, st := st, mem := mem }
                let fin := if r.halts then Fin.ok else Fin.running
                let f' := { f with prev := some pv, fin := fin }
                ({ s with frames := f' :: rest, mayT := s.mayT || isIssue r }, "ok")

/-- `fault d=… pc=…`: `CaptureFault` — execute (or REVERT) ended the frame with an error after the step was logged -/
def faultLine (s : TState) (d pc : Nat) : TState × String :=
  let s := popTo s d
  match s.frames with
  | [] => (s, "bad:fault-without-frame")
  | f :: rest =>
    if f.depth != d then (s, "bad:fault-without-frame") else
    match f.prev with
    | none => (s, "bad:fault-without-step")
    | some pv =>
      if pv.pc != pc then (s, "bad:fault-pc")
      else if f.fin == .err then (s, "bad:double-fault")
      else if entersFrame pv.row then (s, "bad:call-op-faulted")
      else ({ s with frames := { f with fin := .err } :: rest }, "ok")

/-- `end gasleft=… status=ok|reverted|failed trunc=0|1` -/
def endLine (s : TState) (gasLeft : Nat) (status : String) (trunc : Bool) : TState × String :=
  if gasLeft > s.gas then (s, "bad:gasleft-exceeds-gas") else
  if trunc then (s, "ok") else
  let root := s.frames.find? (fun f => f.depth == 1)
  -- the root frame proper (not the decimals() frame)
  let info : Option (Fin × Nat) :=
    match root with
    | some f => if f.isSim then s.rootDone.map (fun (a, b, _) => (a, b)) else some (f.fin, (f.prev.map gasAfter).getD f.gas0)
    | none => none
  match info with
  | none =>
    -- no interpreter frame: empty code, precompile, or refused before running
    if status == "ok" && !s.create && gasLeft != s.gas then (s, "bad:gas-used-without-steps") else (s, "ok")
  | some (fin, g) =>
    if status == "failed" then (if gasLeft == 0 then (s, "ok") else (s, "bad:failed-frame-kept-gas"))
    else if fin == .running then (s, "bad:frame-never-ended")
    else if status == "ok" && fin == .err then (s, "bad:ok-after-fault")
    else if s.create then (if gasLeft ≤ g then (s, "ok") else (s, "bad:gasleft"))
    else if gasLeft == g then (s, "ok") else (s, "bad:gasleft")

end Trace
end Model.Evm
