/-
L-B: the NODE MODEL for C01 — one node's consensus state machine AS IMPLEMENTED in `consensus/state.go`
(`handleMsg` → `defaultSetProposal` / `addProposalBlockPart` / `tryAddVote`→`addVote`, `handleTimeout`,
`handleTxsAvailable`, `enterNewRound`, `enterPropose`, `defaultDecideProposal`, `enterPrevote`, `defaultDoPrevote`,
`enterPrevoteWait`, `enterPrecommit`, `enterPrecommitWait`, `enterCommit`, `tryFinalizeCommit`, `finalizeCommit`,
`updateToStatus`), the vote book-keeping of `consensus/types/height_vote_set.go` (rounds `0..round`, two peer
catch-up rounds per peer, `POLInfo`, `SetPeerMaj23`) and of `types/vote_set.go` (`addVote`/`addVerifiedVote`: primary
vote per validator, conflicting votes only for a block some peer claimed, first +2/3 wins, `HasTwoThirdsAny`), and the
proposer rotation (`Model.ValSet.incrBulk`, i.e. the code's bulk `IncrementAccum(round - cs.Round)` on round skips).
Core Lean only, total functions; executed by the driver against the real `ConsensusState` step by step.

Conventions.
* Blocks are the small integers the simulation (`harness/csim`, `Net.ValueOf`) assigns to block ids; `0` = nil.
  A block id and its part-set header are identified (one header per block id: true of every block the simulation makes).
* What the model takes as GIVEN with an input (verdicts of the real code's own functions, see `In`): who signed a proposal,
  whether a vote's signature/size/address are acceptable, which block a part belongs to, whether `ValidateBlock` /
  `checkBlockEvidence`+`CheckBlock` accept a block, and the block a proposer creates when it has neither a lock nor a valid block.
* Fixed configuration of the simulation: `SkipTimeoutCommit = false`, `WaitForTxs() = false`, the node is a validator,
  recover mode (`stepRecover`, `ProposalTypeRecover`) never entered.  Under `SkipTimeoutCommit = false`, `finalizeCommit` is
  the last thing a handler does, so the height switch (`updateToStatus` + `scheduleRound0`) is applied by `step` after
  `stepCore` (the `decided` flag) — same behaviour, and the theorems can speak about the vote table the outputs were justified by.
* A Go panic (the `PanicSanity`/`PanicConsensus` sites on these paths) sets `dead`; the answer line is then `panic`.
* Quirks kept: `LockedRound`/`ValidRound` reset to 0 (not -1); votes are signed with `cs.Round` as it is when `signAddVote`
  runs (the `enter*` functions update the round afterwards); `defaultSetProposal` replaces `ProposalBlockParts` and clears
  `ProposalBlock` even when the node already holds the block; a nil-polka counts for `POLInfo`; `enterCommit` for +2/3
  precommits of any round.
-/
import LinkVerif.Model.ValSet

namespace Model.Node
open Model

abbrev Value := Nat

/-! ## association lists keyed by `Nat` -/

def alookup {α : Type} : List (Nat × α) → Nat → Option α
  | [], _ => none
  | (k', a) :: rest, k => if k' = k then some a else alookup rest k

def aset {α : Type} : List (Nat × α) → Nat → α → List (Nat × α)
  | [], k, a => [(k, a)]
  | (k', a') :: rest, k, a => if k' = k then (k, a) :: rest else (k', a') :: aset rest k a

/-! ## `types.VoteSet` -/

/-- `blockVotes`: who voted for this block in this set, their power, and whether a peer claimed +2/3 for it -/
structure BV where
  peerMaj : Bool
  who : List Nat
  sum : Nat
deriving Repr, DecidableEq, Inhabited

/-- `VoteSet` (one round, one type): `votes` = primary vote per validator index, `sum` = power of validators with a primary
vote, `maj23` = first +2/3 block seen, `byBlock` = `votesByBlock`, `peers` = `peerMaj23s` -/
structure VSet where
  votes : List (Nat × Value)
  sum : Nat
  maj23 : Option Value
  byBlock : List (Nat × BV)
  peers : List (Nat × Value)
deriving Repr, DecidableEq, Inhabited

def VSet.empty : VSet := { votes := [], sum := 0, maj23 := none, byBlock := [], peers := [] }

/-- `TotalVotingPower()*2/3 + 1` -/
def quorum (total : Nat) : Nat := total * 2 / 3 + 1

/-- `HasTwoThirdsAny`: `sum > total*2/3` -/
def VSet.hasAny (s : VSet) (total : Nat) : Bool := decide (s.sum > total * 2 / 3)

/-- `blockVotes.addVerifiedVote` -/
def BV.add (bv : BV) (i p : Nat) : BV :=
  if bv.who.contains i then bv else { bv with who := i :: bv.who, sum := bv.sum + p }

/-- the copy loop after the first quorum: every vote for the block becomes the validator's primary vote -/
def overlay (votes : List (Nat × Value)) (who : List Nat) (v : Value) : List (Nat × Value) :=
  who.foldl (fun acc i => aset acc i v) votes

/-- tail of `addVerifiedVote`: add to the block's votes; the first crossing of the quorum sets `maj23` -/
def VSet.tally (s : VSet) (total i p : Nat) (v : Value) (bv : BV) : VSet :=
  let bv' := bv.add i p
  let s2 := { s with byBlock := aset s.byBlock v bv' }
  if bv.sum < quorum total ∧ quorum total ≤ bv'.sum ∧ s2.maj23 = none then
    { s2 with maj23 := some v, votes := overlay s2.votes bv'.who v }
  else s2

/-- `addVerifiedVote` (the duplicate case was excluded by the caller) -/
def VSet.addVerified (s : VSet) (total i p : Nat) (v : Value) : VSet × Bool :=
  match alookup s.votes i with
  | some _ =>
    -- a conflicting primary vote exists: replace it only if `v` is the +2/3 block; count it only for a peer-claimed block
    let s1 := if s.maj23 = some v then { s with votes := aset s.votes i v } else s
    match alookup s1.byBlock v with
    | some bv => if bv.peerMaj then (s1.tally total i p v bv, true) else (s1, false)
    | none => (s1, false)
  | none =>
    let s1 := { s with votes := aset s.votes i v, sum := s.sum + p }
    match alookup s1.byBlock v with
    | some bv => (s1.tally total i p v bv, true)
    | none => (s1.tally total i p v { peerMaj := false, who := [], sum := 0 }, true)

/-- `getVote(valIndex, blockKey)`: the vote is already known -/
def VSet.known (s : VSet) (i : Nat) (v : Value) : Bool :=
  (alookup s.votes i == some v) ||
  (match alookup s.byBlock v with | some bv => bv.who.contains i | none => false)

/-- `VoteSet.addVote`: `n` validators, `ok` = size, address and signature of the vote are acceptable (given) -/
def VSet.add (s : VSet) (n total i p : Nat) (v : Value) (ok : Bool) : VSet × Bool :=
  if n ≤ i then (s, false)
  else if s.known i v then (s, false)
  else if !ok then (s, false)
  else s.addVerified total i p v

/-- `VoteSet.SetPeerMaj23` -/
def VSet.setPeerMaj (s : VSet) (peer : Nat) (v : Value) : VSet :=
  match alookup s.peers peer with
  | some _ => s
  | none =>
    let s1 := { s with peers := aset s.peers peer v }
    match alookup s1.byBlock v with
    | some bv => if bv.peerMaj then s1 else { s1 with byBlock := aset s1.byBlock v { bv with peerMaj := true } }
    | none => { s1 with byBlock := aset s1.byBlock v { peerMaj := true, who := [], sum := 0 } }

/-- `RoundVoteSet` -/
structure RV where
  pv : VSet
  pc : VSet
deriving Repr, DecidableEq, Inhabited

def RV.empty : RV := { pv := VSet.empty, pc := VSet.empty }

/-! ## the node -/

def sNewHeight : Nat := 1
def sNewRound : Nat := 2
def sPropose : Nat := 3
def sPrevote : Nat := 4
def sPrevoteWait : Nat := 5
def sPrecommit : Nat := 6
def sPrecommitWait : Nat := 7
def sCommit : Nat := 8
def sRecover : Nat := 9

def tPrevote : Nat := 1
def tPrecommit : Nat := 2

/-- `ProposalBlockParts`: the part set of block `v` (header identified with the block), the indices present -/
structure Parts where
  v : Value
  total : Nat
  got : List Nat
deriving Repr, DecidableEq, Inhabited

inductive Out where
  /-- own proposal for `(h, r)` with POL round `pol` for block `v` (followed by the block's parts) -/
  | proposal (h r : Nat) (pol : Int) (v : Value)
  /-- own signed vote -/
  | vote (t h r : Nat) (v : Value)
  | timeout (h r st : Nat)
  /-- `CommitBlock` of `v` justified by the precommits of round `r` -/
  | commit (h r : Nat) (v : Value)
deriving Repr, DecidableEq, Inhabited

inductive In where
  /-- `ProposalMessage`: `v`/`total` = block and part count of the part-set header, `signer` = index of the validator whose key
  signed it (-1: nobody's), `typ` = proposal type byte (0x20 normal, 0x21 = 33 recover) -/
  | proposal (h r : Nat) (pol : Int) (v : Value) (total : Nat) (signer : Int) (typ : Nat)
  /-- `BlockPartMessage`: part `idx` of the part set of block `pv`; `vOK`/`cOK` = `ValidateBlock` / `checkBlockEvidence`+`CheckBlock`
  verdicts of the real code for that block at this node; `dec` = the complete part set decodes to a block with header, data and
  last commit (a Byzantine proposer can encode one that does not: the parts are kept, `ProposalBlock` stays nil) -/
  | part (h r : Nat) (pv : Value) (idx : Nat) (vOK cOK dec : Bool)
  /-- `VoteMessage` from peer `src` (the node's own index = internal); `tot` = part count of the block id -/
  | vote (t h r idx : Nat) (v : Value) (tot : Nat) (src : Nat) (ok : Bool)
  | timeout (h r st : Nat)
  | txs
  /-- a peer's `VoteSetMaj23` claim reaching `HeightVoteSet.SetPeerMaj23` -/
  | maj23 (r t src : Nat) (v : Value) (tot : Nat)
deriving Repr, DecidableEq, Inhabited

structure St where
  me : Nat
  powers : List Nat
  maxParts : Nat
  height : Nat
  round : Nat
  step : Nat
  lockedRound : Nat
  lockedValue : Value
  validRound : Nat
  validValue : Value
  /-- `cs.Proposal` (its POLRound) -/
  proposal : Option Int
  /-- `cs.ProposalBlock` -/
  pb : Value
  pbp : Option Parts
  commitRound : Int
  /-- `HeightVoteSet.round` -/
  hround : Nat
  /-- `HeightVoteSet.roundVoteSets` -/
  rvs : List (Nat × RV)
  /-- `HeightVoteSet.peerCatchupRounds` -/
  catchup : List (Nat × List Nat)
  /-- `cs.Validators` (rotated by rounds) and `cs.status.Validators` -/
  vals : ValSet.VS
  svals : ValSet.VS
  /-- part counts of the block ids seen -/
  totals : List (Nat × Nat)
  /-- verdicts `(ValidateBlock, evidence+CheckBlock)` for the blocks seen at this height -/
  okv : List (Nat × (Bool × Bool))
  /-- the block a proposer without lock/valid block creates in this step (given) -/
  fresh : Value
  out : List Out
  dead : Bool
  decided : Bool
deriving Repr, DecidableEq, Inhabited

def St.n (s : St) : Nat := s.powers.length
def St.total (s : St) : Nat := s.powers.sum
def St.powerOf (s : St) (i : Nat) : Nat := s.powers.getD i 0

def St.rv (s : St) (r : Nat) : RV := (alookup s.rvs r).getD RV.empty
/-- `cs.Votes.Prevotes(r)` (a nil vote set answers every query like an empty one) -/
def St.pvs (s : St) (r : Nat) : VSet := (s.rv r).pv
def St.pcs (s : St) (r : Nat) : VSet := (s.rv r).pc

def St.totalOf (s : St) (v : Value) : Nat := (alookup s.totals v).getD 0
def St.validOK (s : St) (v : Value) : Bool := ((alookup s.okv v).getD (true, true)).1
def St.checkOK (s : St) (v : Value) : Bool := ((alookup s.okv v).getD (true, true)).2

def emit (s : St) (o : Out) : St := { s with out := s.out ++ [o] }
def die (s : St) : St := { s with dead := true }

/-- `signAddVote`: the vote carries `cs.Height`, `cs.Round` as they are NOW -/
def signAddVote (s : St) (t : Nat) (v : Value) : St := emit s (.vote t s.height s.round v)

def unlock (s : St) : St := { s with lockedRound := 0, lockedValue := 0 }

def hasHeader (p : Option Parts) (v : Value) : Bool :=
  match p with
  | some ps => ps.v == v
  | none => false

/-- `types.NewPartSetFromHeader(blockID.PartsHeader)` -/
def St.newParts (s : St) (v : Value) : Parts := { v := v, total := s.totalOf v, got := [] }
/-- the complete part set of a block the node holds (`LockedBlockParts`) -/
def St.fullParts (s : St) (v : Value) : Parts := { v := v, total := s.totalOf v, got := (List.range (s.totalOf v)).reverse }

/-- `HeightVoteSet.SetRound` (`none` = `PanicSanity("SetRound() must increment hvs.round")`) -/
def setRound (s : St) (r : Nat) : St :=
  if s.hround ≠ 0 ∧ r < s.hround + 1 then die s
  else
    let rvs := (List.range (r - s.hround)).foldl
      (fun acc k => match alookup acc (s.hround + 1 + k) with
        | some _ => acc
        | none => acc ++ [(s.hround + 1 + k, RV.empty)]) s.rvs
    { s with rvs := rvs, hround := r }

/-- `HeightVoteSet.POLInfo`: the last round `≤ hvs.round` whose prevotes have a +2/3 majority (for a block or nil), else -1 -/
def polInfo (s : St) : Int :=
  (List.range (s.hround + 1)).foldl (fun acc r => if (s.pvs r).maj23.isSome then (r : Int) else acc) (-1)

def isProposer (s : St) : Bool := ValSet.getProposer s.vals == some s.me

/-- `isProposalComplete` -/
def isProposalComplete (s : St) : Bool :=
  match s.proposal with
  | none => false
  | some pol =>
    if s.pb = 0 then false
    else if pol < 0 then true
    else (s.pvs pol.toNat).maj23.isSome

/-- `defaultDoPrevote` -/
def doPrevote (s : St) : St :=
  if s.lockedValue ≠ 0 then signAddVote s tPrevote s.lockedValue
  else if s.pb = 0 then signAddVote s tPrevote 0
  else if !s.validOK s.pb then signAddVote s tPrevote 0
  else if !s.checkOK s.pb then signAddVote s tPrevote 0
  else signAddVote s tPrevote s.pb

/-- `enterPrevote` -/
def enterPrevote (s : St) (h r : Nat) : St :=
  if s.dead then s
  else if s.height ≠ h ∨ r < s.round ∨ (s.round = r ∧ sPrevote ≤ s.step) then s
  else { doPrevote s with round := r, step := sPrevote }

/-- `defaultDecideProposal` -/
def decideProposal (s : St) (h r : Nat) : St :=
  let v := if s.lockedValue ≠ 0 then s.lockedValue else if s.validValue ≠ 0 then s.validValue else s.fresh
  if v = 0 then s else emit s (.proposal h r (polInfo s) v)

/-- `enterPropose` up to its deferred part: the propose timeout is scheduled, the proposer decides its proposal, then
`updateRoundStep(round, RoundStepPropose)` -/
def proposeCore (s : St) (h r : Nat) : St :=
  let s1 := emit s (.timeout h r sPropose)
  let s2 := if isProposer s1 then decideProposal s1 h r else s1
  { s2 with round := r, step := sPropose }

/-- `enterPropose` -/
def enterPropose (s : St) (h r : Nat) : St :=
  if s.dead then s
  else if s.height ≠ h ∨ r < s.round ∨ (s.round = r ∧ sPropose ≤ s.step) then s
  else
    let s3 := proposeCore s h r
    if isProposalComplete s3 then enterPrevote s3 h s3.round else s3

/-- `enterNewRound` up to the call of `enterPropose`: round and step updated, proposal reset for rounds > 0,
`cs.Votes.SetRound(round + 1)` -/
def newRoundCore (s : St) (r : Nat) (vals : ValSet.VS) : St :=
  let s1 := { s with round := r, step := sNewRound, vals := vals }
  let s2 := if r = 0 then s1 else { s1 with proposal := none, pb := 0, pbp := none }
  setRound s2 (r + 1)

/-- `enterNewRound` -/
def enterNewRound (s : St) (h r : Nat) : St :=
  if s.dead then s
  else if s.height ≠ h ∨ r < s.round ∨ (s.round = r ∧ s.step ≠ sNewHeight) then s
  else
    match (if s.round < r then ValSet.incrBulk ((r - s.round : Nat) : Int) s.vals else some s.vals) with
    | none => die s
    | some vals => enterPropose (newRoundCore s r vals) h r

/-- `enterPrevoteWait` -/
def enterPrevoteWait (s : St) (h r : Nat) : St :=
  if s.dead then s
  else if s.height ≠ h ∨ r < s.round ∨ (s.round = r ∧ sPrevoteWait ≤ s.step) then s
  else if !(s.pvs r).hasAny s.total then die s
  else { emit s (.timeout h r sPrevoteWait) with round := r, step := sPrevoteWait }

/-- `enterPrecommit` -/
def enterPrecommit (s : St) (h r : Nat) : St :=
  if s.dead then s
  else if s.height ≠ h ∨ r < s.round ∨ (s.round = r ∧ sPrecommit ≤ s.step) then s
  else
    let fin (x : St) : St := { x with round := r, step := sPrecommit }
    match (s.pvs r).maj23 with
    | none => fin (signAddVote s tPrecommit 0)
    | some v =>
      if polInfo s < (r : Int) then die s
      else if v = 0 then
        fin (signAddVote (if s.lockedValue = 0 then s else unlock s) tPrecommit 0)
      else if s.lockedValue = v then
        fin (signAddVote { s with lockedRound := r } tPrecommit v)
      else if s.pb = v then
        if !s.validOK v then die s
        else if !s.checkOK v then die s
        else fin (signAddVote { s with lockedRound := r, lockedValue := v } tPrecommit v)
      else
        let s1 := unlock s
        let s2 := if hasHeader s1.pbp v then s1 else { s1 with pb := 0, pbp := some (s1.newParts v) }
        fin (signAddVote s2 tPrecommit 0)

/-- `enterPrecommitWait` -/
def enterPrecommitWait (s : St) (h r : Nat) : St :=
  if s.dead then s
  else if s.height ≠ h ∨ r < s.round ∨ (s.round = r ∧ sPrecommitWait ≤ s.step) then s
  else if !(s.pcs r).hasAny s.total then die s
  else { emit s (.timeout h r sPrecommitWait) with round := r, step := sPrecommitWait }

/-- `finalizeCommit` up to `CommitBlock`/`ApplyBlock`; the height switch itself is `newHeight` (see `step`) -/
def finalizeCommit (s : St) (h : Nat) : St :=
  if s.height ≠ h ∨ s.step ≠ sCommit then s
  else
    match (s.pcs s.commitRound.toNat).maj23 with
    | none => die s
    | some v =>
      if !hasHeader s.pbp v then die s
      else if s.pb ≠ v then die s
      else if !s.checkOK v then die s
      else
        let s1 := emit s (.commit h s.commitRound.toNat v)
        -- `ApplyBlock` re-validates: on failure the node kills itself and the round state stays as it is
        if !s.validOK v then s1 else { s1 with decided := true }

/-- `tryFinalizeCommit` -/
def tryFinalizeCommit (s : St) (h : Nat) : St :=
  if s.dead then s
  else if s.height ≠ h then die s
  else if s.commitRound < 0 then s
  else
    match (s.pcs s.commitRound.toNat).maj23 with
    | none => s
    | some v => if v = 0 then s else if s.pb ≠ v then s else finalizeCommit s h

/-- `enterCommit` -/
def enterCommit (s : St) (h cr : Nat) : St :=
  if s.dead then s
  else if s.height ≠ h ∨ sCommit ≤ s.step then s
  else
    match (s.pcs cr).maj23 with
    | none => die s
    | some v =>
      let s1 := if s.lockedValue ≠ 0 ∧ s.lockedValue = v then { s with pb := s.lockedValue, pbp := some (s.fullParts s.lockedValue) } else s
      let s2 := if s1.pb ≠ 0 ∧ s1.pb = v then s1
                else if hasHeader s1.pbp v then s1
                else { s1 with pb := 0, pbp := some (s1.newParts v) }
      tryFinalizeCommit { s2 with step := sCommit, commitRound := (cr : Int) } h

/-- `defaultSetProposal` (recover proposals are outside the model: ignored) -/
def setProposal (s : St) (h r : Nat) (pol : Int) (v : Value) (total : Nat) (signer : Int) (typ : Nat) : St :=
  if s.proposal.isSome then s
  else if typ = 33 then s
  else if h ≠ s.height ∨ r ≠ s.round then s
  else if sCommit ≤ s.step then s
  else if pol ≠ -1 ∧ (pol < 0 ∨ (r : Int) ≤ pol) then s
  else if total = 0 ∨ s.maxParts < total then s
  else if (ValSet.getProposer s.vals).map (fun a => (a : Int)) ≠ some signer then s
  else { s with proposal := some pol, pb := 0, pbp := some { v := v, total := total, got := [] } }

/-- `addProposalBlockPart`, the `Valid*` update when the block completes while the current round has a polka for it -/
def validOnComplete (s2 : St) : St :=
  match (s2.pvs s2.round).maj23 with
  | some b => if b ≠ 0 ∧ s2.validRound < s2.round ∧ s2.pb = b then { s2 with validRound := s2.round, validValue := s2.pb } else s2
  | none => s2

/-- `addProposalBlockPart`, what follows a completed block: prevote (and precommit if the round already has a +2/3 majority),
or finalize when the node was only waiting for the block -/
def blockCompleted (s3 : St) (h : Nat) (hasMaj : Bool) : St :=
  if s3.step ≤ sPropose ∧ isProposalComplete s3 then
    let s4 := enterPrevote s3 h s3.round
    if hasMaj then enterPrecommit s4 h s4.round else s4
  else if s3.step = sCommit then tryFinalizeCommit s3 h
  else s3

/-- `addProposalBlockPart` -/
def addPart (s : St) (h : Nat) (pv : Value) (idx : Nat) (dec : Bool) : St :=
  if s.height ≠ h then s
  else
    match s.pbp with
    | none => s
    | some ps =>
      if ps.total ≤ idx then s
      else if ps.got.contains idx then s
      else if pv ≠ ps.v then s
      else
        let ps' := { ps with got := idx :: ps.got }
        let s1 := { s with pbp := some ps' }
        if ps'.got.length ≠ ps.total then s1
        else if !dec then s1     -- decode error / missing header, data or last commit: `cs.ProposalBlock = nil`, error returned
        else
          let s2 := { s1 with pb := ps.v }
          blockCompleted (validOnComplete s2) h (s2.pvs s2.round).maj23.isSome

def putVS (s : St) (r t : Nat) (vs : VSet) : St :=
  let rv := s.rv r
  { s with rvs := aset s.rvs r (if t = tPrevote then { rv with pv := vs } else { rv with pc := vs }) }

/-- `addVote`, prevote case, first half: a polka (for a block or nil) at `r` unlocks a lock of an earlier round when
`LockedRound < r ≤ Round` and updates `Valid*` when it is for the proposal block -/
def polkaUpdate (s2 : St) (r : Nat) (pv : VSet) : St :=
  match pv.maj23 with
  | some b =>
    let sa := if s2.lockedValue ≠ 0 ∧ s2.lockedRound < r ∧ r ≤ s2.round ∧ s2.lockedValue ≠ b then unlock s2 else s2
    if b ≠ 0 ∧ sa.validRound < r ∧ r ≤ sa.round ∧ sa.pb = b then { sa with validRound := r, validValue := sa.pb } else sa
  | none => s2

/-- `addVote`, prevote case, second half: round skip / PrevoteWait / Precommit / complete proposal -/
def onPrevote (s3 : St) (r : Nat) (pv : VSet) : St :=
  let h := s3.height
  if s3.round ≤ r ∧ pv.hasAny s3.total then
    let s4 := enterNewRound s3 h r
    if pv.maj23.isSome then enterPrecommit s4 h r
    else enterPrevoteWait (enterPrevote s4 h r) h r
  else
    match s3.proposal with
    | some pol => if 0 ≤ pol ∧ pol = (r : Int) ∧ isProposalComplete s3 then enterPrevote s3 h s3.round else s3
    | none => s3

/-- `addVote`, precommit case -/
def onPrecommit (s2 : St) (r : Nat) (pc : VSet) : St :=
  let h := s2.height
  match pc.maj23 with
  | some b =>
    if b = 0 then enterNewRound s2 h (r + 1)
    else enterCommit (enterPrecommit (enterNewRound s2 h r) h r) h r
  | none =>
    if s2.round ≤ r ∧ pc.hasAny s2.total then enterPrecommitWait (enterPrecommit (enterNewRound s2 h r) h r) h r
    else s2

/-- `HeightVoteSet.AddVote`, the round lookup: a vote of a round without vote sets opens a peer catch-up round (two per peer);
`none` = `GotVoteFromUnwantedRoundError` -/
def catchupRound (s : St) (r src : Nat) : Option St :=
  match alookup s.rvs r with
  | some _ => some s
  | none =>
    let rz := (alookup s.catchup src).getD []
    if rz.length < 2 then some { s with rvs := s.rvs ++ [(r, RV.empty)], catchup := aset s.catchup src (rz ++ [r]) }
    else none

/-- `HeightVoteSet.AddVote` + `VoteSet.AddVote`: the state with the vote recorded, and whether it was added -/
def recordVote (s : St) (t r idx : Nat) (v : Value) (src : Nat) (ok : Bool) : St × Bool :=
  match catchupRound s r src with
  | none => (s, false)
  | some s1 =>
    let vs := if t = tPrevote then s1.pvs r else s1.pcs r
    let res := vs.add s1.n s1.total idx (s1.powerOf idx) v ok
    (putVS s1 r t res.1, res.2)

/-- `addVote` (through `tryAddVote`; errors only feed logs and the evidence pool) -/
def addVote (s : St) (t vh r idx : Nat) (v : Value) (src : Nat) (ok : Bool) : St :=
  -- a precommit for the previous height: wrong step/type → ErrVoteHeightMismatch; at the first height there is no LastCommit
  -- → ErrVoteHeightMismatch (fix 26762b7; before it `cs.LastCommit.AddVote` on the nil vote set panicked); otherwise a LastCommit
  -- straggler, which causes no transition with SkipTimeoutCommit = false.  In every case: no change, no output, no panic.
  if vh + 1 = s.height then s
  else if vh ≠ s.height then s
  else if t ≠ tPrevote ∧ t ≠ tPrecommit then s
  else
    let res := recordVote s t r idx v src ok
    let s2 := res.1
    if !res.2 then s2
    else if t = tPrevote then onPrevote (polkaUpdate s2 r (s2.pvs r)) r (s2.pvs r)
    else onPrecommit s2 r (s2.pcs r)

/-- `handleTimeout` -/
def handleTimeout (s : St) (h r st : Nat) : St :=
  if h ≠ s.height ∨ r < s.round ∨ (r = s.round ∧ st < s.step) then s
  else if st = sNewHeight then enterNewRound s h 0
  else if st = sNewRound then enterPropose s h 0
  else if st = sPropose then enterPrevote s h r
  else if st = sPrevoteWait then enterPrecommit s h r
  else if st = sPrecommitWait then enterNewRound s h (r + 1)
  else if st = sRecover then enterNewRound s h (r + 1)
  else die s

/-- `HeightVoteSet.SetPeerMaj23` -/
def setPeerMaj (s : St) (r t src : Nat) (v : Value) : St :=
  if t ≠ tPrevote ∧ t ≠ tPrecommit then s
  else match alookup s.rvs r with
    | none => s
    | some rv => putVS s r t ((if t = tPrevote then rv.pv else rv.pc).setPeerMaj src v)

def learn (s : St) (v tot : Nat) : St :=
  if v = 0 then s else match alookup s.totals v with
    | some _ => s
    | none => { s with totals := aset s.totals v tot }

/-- one input handled by `handleMsg` / `handleTimeout` / `handleTxsAvailable`, before the height switch -/
def stepCore (s0 : St) (i : In) : St :=
  let s := { s0 with out := [], decided := false }
  if s.dead then s else
  match i with
  | .proposal h r pol v total signer typ => setProposal (learn s v total) h r pol v total signer typ
  | .part h _ pv idx vOK cOK dec => addPart { s with okv := aset s.okv pv (vOK, cOK) } h pv idx dec
  | .vote t h r idx v tot src ok => addVote (learn s v tot) t h r idx v src ok
  | .timeout h r st => handleTimeout s h r st
  | .txs => enterPropose s s.height 0
  | .maj23 r t src v tot => setPeerMaj (learn s v tot) r t src v

/-- `updateToStatus` + `scheduleRound0` after a successful `ApplyBlock` -/
def newHeight (s : St) : St :=
  match ValSet.incr1 s.svals with
  | none => die s
  | some nv =>
    emit { s with height := s.height + 1, round := 0, step := sNewHeight, svals := nv, vals := nv,
                  proposal := none, pb := 0, pbp := none, lockedRound := 0, lockedValue := 0, validRound := 0, validValue := 0,
                  hround := 0, rvs := [(0, RV.empty)], catchup := [], commitRound := -1, okv := [], decided := false }
      (.timeout (s.height + 1) 0 sNewHeight)

/-- the node's transition on one input: `(state, outputs)` are `(step s i, (step s i).out)` -/
def step (s : St) (i : In) : St :=
  let s' := stepCore s i
  if s'.decided ∧ !s'.dead then newHeight s' else s'

/-- the state `NewConsensusState` + `OnStart` leave behind at height `h`: step NewHeight, the round-0 timeout scheduled -/
def initSt (me : Nat) (powers : List Nat) (maxParts : Nat) (h : Nat) (vals : ValSet.VS) : St :=
  { me := me, powers := powers, maxParts := maxParts, height := h, round := 0, step := sNewHeight,
    lockedRound := 0, lockedValue := 0, validRound := 0, validValue := 0, proposal := none, pb := 0, pbp := none,
    commitRound := -1, hround := 0, rvs := [(0, RV.empty)], catchup := [], vals := vals, svals := vals,
    totals := [], okv := [], fresh := 0, out := [.timeout h 0 sNewHeight], dead := false, decided := false }

def run (s : St) : List In → St
  | [] => s
  | i :: rest => run (step s i) rest

end Model.Node
