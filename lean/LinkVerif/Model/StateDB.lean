/-
Model of `state/statedb.go`, `state/journal.go`, `state/state_object.go` (journal, snapshots, copies).
Core Lean only, total functions.  The model mirrors what the code DOES (defects included):

* `SetBalance`/`SetTokenBalance` bump `Credits` (separately journalled);
* `SetTokenBalance` inserts `Tokens[token] = 0` BEFORE journalling when the key is absent; the undo entry writes the previous
  value back, so the zero entry survives a revert (`Cfg.journalAbsent = false`);
* `suicideChange` remembers only the strictly positive balances and reverts into a fresh map;
* `stateObject.deepCopy` copies `Account` by value; since fix 9e64f31 it clones the `Tokens` map (`Cfg.cloneTokens = true`),
  before it the MAP WAS SHARED between the object and its copy (`Cfg.cloneTokens = false`, kept so that a reverted fix is
  still modelled); `StateDB.Copy` deep-copies only dirty objects, does not copy thash/txIndex/revision ids;
* `resetObjectChange.dirtied()` is nil; `createObjectChange.revert` deletes the map entries.

Sharing is expressed with an explicit HEAP of reference cells (`Ctx.heap : Ref → TokMap`): the token map of an object is either
still private (`TokStore.inl`, never deep-copied since it was made) or a cell shared with every object deep-copied from it.
Maps are total functions on small index types (`Addr`, `Tok`, `Key` are indices into the harness universes); iteration
(Finalise, Commit, Copy, printing) runs over the fixed universes `addrU`, `tokU`, `keyU`.
Loads from the trie are not cached in the model (`peek`): a clean cached object is indistinguishable from the trie entry.
-/
namespace Model.StateDB

abbrev Addr := Nat
abbrev Tok := Nat          -- 0 = common.EmptyAddress (the native balance)
abbrev Key := Nat
abbrev Bytes := List UInt8
abbrev Ref := Nat

def addrU : List Addr := [0, 1, 2, 3, 4, 5]
def tokU : List Tok := [1, 2, 3]
def keyU : List Key := [0, 1, 2, 3]

abbrev TokMap := Tok → Option Int
abbrev Store := Key → Option Bytes

/-- function update -/
def upd {β : Type} (f : Nat → β) (k : Nat) (v : β) : Nat → β := fun x => if x = k then v else f x

@[simp] theorem upd_same {β : Type} (f : Nat → β) (k : Nat) (v : β) : upd f k v k = v := by simp [upd]
@[simp] theorem upd_other {β : Type} (f : Nat → β) (k x : Nat) (v : β) (h : x ≠ k) : upd f k v x = f x := by simp [upd, h]

structure Cfg where
  /-- `deepCopy` clones the Tokens map (the repaired code) instead of sharing it (the current code) -/
  cloneTokens : Bool
  /-- the token undo entry remembers that the key was absent and deletes it again (a repaired code); the current code
  inserts a zero first and writes the zero back -/
  journalAbsent : Bool

/-- the tree as pinned, before fix 9e64f31 (deepCopy shared the Tokens map) -/
def Cfg.pinned : Cfg := { cloneTokens := false, journalAbsent := false }
/-- what the tree does today (fix 9e64f31: deepCopy clones the map; the zero entry of `SetTokenBalance` is still un-journalled).
The driver does not use this constant: it builds its `Cfg` from the facts re-extracted on every run (`Gen.C09Facts`);
`Props.C09.treeCfg_eq_current` checks that the two agree. -/
def Cfg.current : Cfg := { cloneTokens := true, journalAbsent := false }
/-- both repairs (also journal the absence of the token entry) -/
def Cfg.repaired : Cfg := { cloneTokens := true, journalAbsent := true }

inductive TokStore where
  | inl (m : TokMap)
  | shared (r : Ref)

/-- the consensus encoding of an account (what the account trie holds) -/
structure Account where
  nonce : Nat
  credits : Nat
  balance : Int
  tokens : TokMap
  storage : Store      -- content of the storage trie at `Root` (values trimmed)
  code : Bytes         -- stands for `CodeHash` (+ the blob in the database)

structure Obj where
  nonce : Nat
  credits : Nat
  balance : Int
  toks : TokStore
  code : Bytes
  strie : Store        -- the object's storage trie (pending `updateTrie` writes included)
  origin : Store       -- `originStorage` entries written by `updateTrie` (read caching is not modelled)
  dirty : Store        -- `dirtyStorage`
  suicided : Bool
  deleted : Bool

def emptyStore : Store := fun _ => none
def emptyToks : TokMap := fun _ => none

/-- `newObject(db, addr, Account{Credits: 1})` -/
def freshObj : Obj :=
  { nonce := 0, credits := 1, balance := 0, toks := .inl emptyToks, code := [], strie := emptyStore, origin := emptyStore,
    dirty := emptyStore, suicided := false, deleted := false }

/-- `newObject(db, addr, decoded account)` -/
def loadObj (a : Account) : Obj :=
  { nonce := a.nonce, credits := a.credits, balance := a.balance, toks := .inl a.tokens, code := a.code, strie := a.storage,
    origin := emptyStore, dirty := emptyStore, suicided := false, deleted := false }

inductive Entry where
  | createObject (a : Addr)
  | resetObject (a : Addr) (prev : Obj)
  | suicide (a : Addr) (prev : Bool) (balPos : Option Int) (tokPos : Tok → Option Int)
  | balance (a : Addr) (prev : Int)
  | nonce (a : Addr) (prev : Nat)
  | credits (a : Addr) (prev : Nat)
  | storage (a : Addr) (k : Key) (prev : Bytes)
  | code (a : Addr) (prev : Bytes)
  | refund (prev : Nat)
  | addLog (tx : Nat)
  | touch (a : Addr)
  | addPreimage (p : Nat)
  | tokenBalance (a : Addr) (t : Tok) (prev : Option Int)

def Entry.dirtied : Entry → Option Addr
  | .createObject a => some a
  | .resetObject _ _ => none
  | .suicide a _ _ _ => some a
  | .balance a _ => some a
  | .nonce a _ => some a
  | .credits a _ => some a
  | .storage a _ _ => some a
  | .code a _ => some a
  | .refund _ => none
  | .addLog _ => none
  | .touch a => some a
  | .addPreimage _ => none
  | .tokenBalance a _ _ => some a

structure Log where
  data : Nat
  index : Nat
  txIndex : Nat
deriving DecidableEq, Repr

structure State where
  objs : Addr → Option Obj        -- stateObjects
  objsDirty : Addr → Bool          -- stateObjectsDirty
  trie : Addr → Option Account
  refund : Nat
  thash : Nat
  txIndex : Nat
  logs : Nat → List Log
  logSize : Nat
  preimages : Nat → Option Bytes   -- SHA3 preimages recorded by the VM (keys from a fixed universe)
  journal : List Entry             -- head = most recent entry
  revs : List (Nat × Nat)          -- validRevisions (id, journalIndex), head = most recent
  nextRev : Nat

def State.empty : State :=
  { objs := fun _ => none, objsDirty := fun _ => false, trie := fun _ => none, refund := 0, thash := 0, txIndex := 0,
    logs := fun _ => [], logSize := 0, preimages := fun _ => none, journal := [], revs := [], nextRev := 0 }

/-- heap of shared token maps + one state -/
structure Ctx where
  heap : Ref → TokMap
  nextRef : Nat
  st : State

/-- `getStateObject` without the caching side effect -/
def peek (s : State) (a : Addr) : Option Obj :=
  match s.objs a with
  | some o => if o.deleted then none else some o
  | none => (s.trie a).map loadObj

def tokMapOf (heap : Ref → TokMap) (o : Obj) : TokMap :=
  match o.toks with
  | .inl m => m
  | .shared r => heap r

def Obj.isEmpty (o : Obj) : Bool := o.nonce == 0 && o.balance == 0 && o.code.isEmpty

def committed (o : Obj) (k : Key) : Bytes :=
  match o.origin k with
  | some v => v
  | none => (o.strie k).getD []

def getState (o : Obj) (k : Key) : Bytes :=
  match o.dirty k with
  | some v => v
  | none => committed o k

def putObj (c : Ctx) (a : Addr) (o : Obj) : Ctx := { c with st := { c.st with objs := upd c.st.objs a (some o) } }
def push (c : Ctx) (e : Entry) : Ctx := { c with st := { c.st with journal := e :: c.st.journal } }

/-- write one token entry of object `o` (through the heap when the map is shared): the new heap … -/
def writeTokH (heap : Ref → TokMap) (o : Obj) (t : Tok) (v : Option Int) : Ref → TokMap :=
  match o.toks with
  | .inl _ => heap
  | .shared r => upd heap r (upd (heap r) t v)

/-- … and the new object -/
def writeTokO (o : Obj) (t : Tok) (v : Option Int) : Obj :=
  match o.toks with
  | .inl m => { o with toks := .inl (upd m t v) }
  | .shared _ => o

/-- modify the live-or-loaded object at `a` (no-op if there is none: the code would dereference nil) -/
def modObj (c : Ctx) (a : Addr) (f : Obj → Obj) : Ctx :=
  match peek c.st a with
  | none => c
  | some o => putObj c a (f o)

def modTok (c : Ctx) (a : Addr) (t : Tok) (v : Option Int) : Ctx :=
  match peek c.st a with
  | none => c
  | some o => putObj { c with heap := writeTokH c.heap o t v } a (writeTokO o t v)

/-! ### undo (journalEntry.revert) -/

/-- `suicideChange.revert`: every remembered (strictly positive) token value is written back into the object's CURRENT map
(the fresh one `Suicide` installed, through the heap if that map has been deep-copied since) -/
def mergeToks (pos : Tok → Option Int) (cur : TokMap) : TokMap := fun t =>
  match pos t with
  | some v => some v
  | none => cur t

def restoreToks (c : Ctx) (a : Addr) (pos : Tok → Option Int) : Ctx :=
  match peek c.st a with
  | none => c
  | some o =>
    match o.toks with
    | .inl m => putObj c a { o with toks := .inl (mergeToks pos m) }
    | .shared r => putObj { c with heap := upd c.heap r (mergeToks pos (c.heap r)) } a o

def undo (e : Entry) (c : Ctx) : Ctx :=
  match e with
  | .createObject a => { c with st := { c.st with objs := upd c.st.objs a none, objsDirty := upd c.st.objsDirty a false } }
  | .resetObject a prev => putObj c a { prev with deleted := false }   -- `prev` came from getStateObject: never a deleted object
  | .suicide a prev balPos tokPos =>
    restoreToks (modObj c a (fun o => { o with suicided := prev, balance := balPos.getD o.balance })) a tokPos
  | .balance a prev => modObj c a (fun o => { o with balance := prev })
  | .nonce a prev => modObj c a (fun o => { o with nonce := prev })
  | .credits a prev => modObj c a (fun o => { o with credits := prev })
  | .storage a k prev => modObj c a (fun o => { o with dirty := upd o.dirty k (some prev) })
  | .code a prev => modObj c a (fun o => { o with code := prev })
  | .refund prev => { c with st := { c.st with refund := prev } }
  | .addLog tx => { c with st := { c.st with logs := upd c.st.logs tx (c.st.logs tx).dropLast, logSize := c.st.logSize - 1 } }
  | .touch _ => c
  | .addPreimage p => { c with st := { c.st with preimages := upd c.st.preimages p none } }
  | .tokenBalance a t prev => modTok c a t prev

/-- `journal.revert(statedb, n)`: undo entries until the journal has length `n` -/
def revertJournal (n : Nat) : List Entry → Ctx → Ctx
  | [], c => { c with st := { c.st with journal := [] } }
  | e :: rest, c =>
    if (e :: rest).length ≤ n then { c with st := { c.st with journal := e :: rest } }
    else revertJournal n rest (undo e c)

/-! ### mutators -/

/-- `createObject`: returns the context with the new live object and the overwritten one -/
def createObject (c : Ctx) (a : Addr) : Ctx × Option Obj :=
  let prev := peek c.st a
  let e := match prev with
    | none => Entry.createObject a
    | some p => Entry.resetObject a p
  (putObj (push c e) a freshObj, prev)

/-- `GetOrNewStateObject` + make the object live -/
def ensure (c : Ctx) (a : Addr) : Ctx × Obj :=
  match peek c.st a with
  | some o => (putObj c a o, o)
  | none => ((createObject c a).1, freshObj)

def setCredits (c : Ctx) (a : Addr) (o : Obj) (v : Nat) : Ctx × Obj :=
  let o' := { o with credits := v }
  (putObj (push c (.credits a o.credits)) a o', o')

def setBalance (c : Ctx) (a : Addr) (o : Obj) (v : Int) : Ctx :=
  let (c1, o1) := setCredits c a o (o.credits + 1)
  putObj (push c1 (.balance a o1.balance)) a { o1 with balance := v }

def touchIfEmpty (c : Ctx) (a : Addr) (o : Obj) : Ctx :=
  if o.isEmpty then push c (.touch a) else c

/-- the un-journalled `Tokens[token] = 0` of `SetTokenBalance` -/
def zeroInsert (cfg : Cfg) (c : Ctx) (a : Addr) (o : Obj) (t : Tok) : Ctx × Obj :=
  if (tokMapOf c.heap o t).isNone && !cfg.journalAbsent then
    (putObj { c with heap := writeTokH c.heap o t (some 0) } a (writeTokO o t (some 0)), writeTokO o t (some 0))
  else (c, o)

def setTokenBalance (cfg : Cfg) (c : Ctx) (a : Addr) (o : Obj) (t : Tok) (v : Int) : Ctx :=
  if t = 0 then setBalance c a o v
  else
    let (c0, o0) := zeroInsert cfg c a o t
    let (c1, o1) := setCredits c0 a o0 (o0.credits + 1)
    putObj { push c1 (.tokenBalance a t (tokMapOf c1.heap o1 t)) with heap := writeTokH c1.heap o1 t (some v) } a (writeTokO o1 t (some v))

def tokenBalanceOf (heap : Ref → TokMap) (o : Obj) (t : Tok) : Int :=
  if t = 0 then o.balance else (tokMapOf heap o t).getD 0

/-- `TokenBalances()`: only strictly positive values are remembered by `Suicide` -/
def positiveToks (m : TokMap) : Tok → Option Int := fun t =>
  match m t with
  | some v => if v > 0 then some v else none
  | none => none

inductive Op where
  | addBal (a : Addr) (v : Int)
  | subBal (a : Addr) (v : Int)
  | setBal (a : Addr) (v : Int)
  | addTok (a : Addr) (t : Tok) (v : Int)
  | subTok (a : Addr) (t : Tok) (v : Int)
  | setTok (a : Addr) (t : Tok) (v : Int)
  | setNonce (a : Addr) (n : Nat)
  | setCode (a : Addr) (code : Bytes)
  | setState (a : Addr) (k : Key) (v : Bytes)
  | create (a : Addr)
  | suicide (a : Addr)
  | addLog (d : Nat)
  | addRefund (g : Nat)
  | subRefund (g : Nat)
  | prepare (x : Nat) (i : Nat)
  | setCredits (a : Addr) (n : Nat)
  | addPreimage (p : Nat) (d : Bytes)

/-- one mutator of `StateDB` (journal entries are pushed before each mutation, as in the code) -/
def applyOp (cfg : Cfg) (c : Ctx) : Op → Ctx
  | .addBal a v =>
    let (c1, o) := ensure c a
    if v = 0 then touchIfEmpty c1 a o else setBalance c1 a o (o.balance + v)
  | .subBal a v =>
    let (c1, o) := ensure c a
    if v = 0 then c1 else setBalance c1 a o (o.balance - v)
  | .setBal a v =>
    let (c1, o) := ensure c a
    setBalance c1 a o v
  | .addTok a t v =>
    let (c1, o) := ensure c a
    if v = 0 then touchIfEmpty c1 a o else setTokenBalance cfg c1 a o t (tokenBalanceOf c1.heap o t + v)
  | .subTok a t v =>
    let (c1, o) := ensure c a
    if v = 0 then c1 else setTokenBalance cfg c1 a o t (tokenBalanceOf c1.heap o t - v)
  | .setTok a t v =>
    let (c1, o) := ensure c a
    setTokenBalance cfg c1 a o t v
  | .setNonce a n =>
    let (c1, o) := ensure c a
    putObj (push c1 (.nonce a o.nonce)) a { o with nonce := n }
  | .setCode a code =>
    let (c1, o) := ensure c a
    putObj (push c1 (.code a o.code)) a { o with code := code }
  | .setState a k v =>
    let (c1, o) := ensure c a
    let prev := getState o k
    if prev = v then c1 else putObj (push c1 (.storage a k prev)) a { o with dirty := upd o.dirty k (some v) }
  | .create a =>
    let (c1, prev) := createObject c a
    match prev with
    | none => c1
    | some p => putObj c1 a { freshObj with balance := p.balance }
  | .suicide a =>
    match peek c.st a with
    | none => c
    | some o =>
      putObj (push c (.suicide a o.suicided (if o.balance > 0 then some o.balance else none) (positiveToks (tokMapOf c.heap o)))) a
        { o with suicided := true, balance := 0, toks := .inl emptyToks }
  | .addLog d =>
    let s := c.st
    { c with st := { s with journal := .addLog s.thash :: s.journal,
                            logs := upd s.logs s.thash (s.logs s.thash ++ [{ data := d, index := s.logSize, txIndex := s.txIndex }]),
                            logSize := s.logSize + 1 } }
  | .addRefund g =>
    let s := c.st
    { c with st := { s with journal := .refund s.refund :: s.journal, refund := s.refund + g } }
  | .subRefund g =>
    let s := c.st
    -- the entry is appended before the `panic("Refund counter below zero")`
    { c with st := { s with journal := .refund s.refund :: s.journal, refund := if g > s.refund then s.refund else s.refund - g } }
  | .prepare x i => { c with st := { c.st with thash := x, txIndex := i } }
  | .setCredits a n =>
    let (c1, o) := ensure c a
    (setCredits c1 a o n).1
  | .addPreimage p d =>
    let s := c.st
    match s.preimages p with
    | some _ => c
    | none => { c with st := { s with journal := .addPreimage p :: s.journal, preimages := upd s.preimages p (some d) } }

/-- `Snapshot()` -/
def snapshot (c : Ctx) : Ctx × Nat :=
  let s := c.st
  ({ c with st := { s with revs := (s.nextRev, s.journal.length) :: s.revs, nextRev := s.nextRev + 1 } }, s.nextRev)

def findRev (id : Nat) : List (Nat × Nat) → Option (Nat × List (Nat × Nat))
  | [] => none
  | (i, j) :: rest => if i = id then some (j, rest) else findRev id rest

/-- `RevertToSnapshot(id)`; `none` = the code panics ("revision id cannot be reverted"), nothing changed -/
def revertTo (c : Ctx) (id : Nat) : Option Ctx :=
  match findRev id c.st.revs with
  | none => none
  | some (j, older) =>
    let c1 := revertJournal j c.st.journal c
    some { c1 with st := { c1.st with revs := older } }

/-! ### Finalise / Commit / Copy -/

def isDirtyJ (s : State) (a : Addr) : Bool := s.journal.any (fun e => e.dirtied == some a)

def trimLeft : Bytes → Bytes
  | [] => []
  | b :: rest => if b = 0 then trimLeft rest else b :: rest

/-- `updateTrie`: flush dirty storage into the object's storage trie -/
def updateTrie (o : Obj) : Obj :=
  let o' := keyU.foldl (fun (acc : Obj) k =>
    match o.dirty k with
    | none => acc
    | some v =>
      if v = committed o k then acc
      else
        { acc with origin := upd acc.origin k (some v),
                   strie := if v.isEmpty then upd acc.strie k none else upd acc.strie k (some (trimLeft v)) }) o
  { o' with dirty := emptyStore }

def accountOf (heap : Ref → TokMap) (o : Obj) : Account :=
  { nonce := o.nonce, credits := o.credits, balance := o.balance, tokens := tokMapOf heap o, storage := o.strie, code := o.code }

def clearJournal (s : State) : State := { s with journal := [], revs := [], refund := 0 }

/-- `Finalise(deleteEmptyObjects)` -/
def finalise (del : Bool) (c : Ctx) : Ctx :=
  let s := addrU.foldl (fun (s : State) a =>
    if isDirtyJ c.st a then
      match c.st.objs a with
      | none => s
      | some o =>
        if o.suicided || (del && o.isEmpty) then
          { s with objs := upd s.objs a (some { o with deleted := true }), trie := upd s.trie a none, objsDirty := upd s.objsDirty a true }
        else
          let o' := updateTrie o
          { s with objs := upd s.objs a (some o'), trie := upd s.trie a (some (accountOf c.heap o')), objsDirty := upd s.objsDirty a true }
    else s) c.st
  { c with st := clearJournal s }

/-- `Commit(deleteEmptyObjects, height)` -/
def commit (del : Bool) (c : Ctx) : Ctx :=
  let s := addrU.foldl (fun (s : State) a =>
    match c.st.objs a with
    | none => s
    | some o =>
      let isDirty := c.st.objsDirty a || isDirtyJ c.st a
      let s1 :=
        if o.suicided || (isDirty && del && o.isEmpty) then
          { s with objs := upd s.objs a (some { o with deleted := true }), trie := upd s.trie a none }
        else if isDirty then
          let o' := updateTrie o
          { s with objs := upd s.objs a (some o'), trie := upd s.trie a (some (accountOf c.heap o')) }
        else s
      { s1 with objsDirty := upd s1.objsDirty a false }) c.st
  { c with st := clearJournal s }

/-- `stateObject.deepCopy`: returns (heap, nextRef, the original object afterwards, the copy) -/
def deepCopy (cfg : Cfg) (heap : Ref → TokMap) (nextRef : Nat) (o : Obj) : (Ref → TokMap) × Nat × Obj × Obj :=
  if cfg.cloneTokens then (heap, nextRef, o, { o with toks := .inl (tokMapOf heap o) })
  else
    match o.toks with
    | .shared _ => (heap, nextRef, o, o)
    | .inl m =>
      let o' := { o with toks := .shared nextRef }
      (upd heap nextRef m, nextRef + 1, o', o')

/-- `StateDB.Copy()`: returns the context of the original (its private maps may have become shared cells) and the copy's state -/
def copy (cfg : Cfg) (c : Ctx) : Ctx × State :=
  let init : Ctx × State := (c, { State.empty with trie := c.st.trie, refund := c.st.refund, logs := c.st.logs, logSize := c.st.logSize,
                                                   preimages := c.st.preimages })
  addrU.foldl (fun (acc : Ctx × State) a =>
    let (c1, n) := acc
    if isDirtyJ c.st a || c.st.objsDirty a then
      match c1.st.objs a with
      | none => acc
      | some o =>
        let (h, nr, o1, o2) := deepCopy cfg c1.heap c1.nextRef o
        (putObj { c1 with heap := h, nextRef := nr } a o1,
         { n with objs := upd n.objs a (some o2), objsDirty := upd n.objsDirty a true })
    else acc) init

/-- `Reset(root)`: everything ephemeral is dropped, the trie is reopened at `root`; `nextRevisionId` keeps running -/
def resetTo (t : Addr → Option Account) (s : State) : State := { State.empty with trie := t, nextRev := s.nextRev }

/-- `state.New(root, db)`: a new StateDB over the trie content at `root` -/
def openAt (t : Addr → Option Account) : State := { State.empty with trie := t }

/-! ### observables: the getters named in the property -/

structure AccObs where
  nonce : Nat
  credits : Nat
  balance : Int
  tok : Tok → Int                 -- GetTokenBalance (0 for an absent entry)
  code : Bytes
  stor : Key → Bytes              -- GetState
  suicided : Bool
  empty : Bool

def obsObj (heap : Ref → TokMap) (o : Obj) : AccObs :=
  { nonce := o.nonce, credits := o.credits, balance := o.balance, tok := fun t => (tokMapOf heap o t).getD 0, code := o.code,
    stor := getState o, suicided := o.suicided, empty := o.isEmpty }

structure Obs where
  acct : Addr → Option AccObs     -- none = !Exist
  refund : Nat
  logs : Nat → List Log
  logSize : Nat
  preimages : Nat → Option Bytes

def obs (c : Ctx) : Obs :=
  { acct := fun a => (peek c.st a).map (obsObj c.heap), refund := c.st.refund, logs := c.st.logs, logSize := c.st.logSize,
    preimages := c.st.preimages }

/-- secondary observable: the content the account trie commits to (root equality = content equality, hash injectivity assumed) -/
def rootContent (s : State) : List (Option (Nat × Nat × Int × List (Option Int) × List (Option Bytes) × Bytes)) :=
  addrU.map (fun a => (s.trie a).map (fun acc =>
    (acc.nonce, acc.credits, acc.balance, tokU.map acc.tokens, keyU.map acc.storage, acc.code)))

/-! ### `journal.dirties` as the code keeps it (state/journal.go `append`, `revert`)

The model above derives dirtiness from the entries (`isDirtyJ`); the code keeps a counter per address and deletes the key when
the counter returns to zero.  `JB` is that bookkeeping, literally (`map[common.Address]int`: a missing key reads 0);
`Props.C09.jb_inv_*` prove that the two agree after every append/revert.  (`journal.dirty(addr)`, the RIPEMD special case, is
outside: the harness never uses that address.) -/

structure JB where
  entries : List Entry           -- head = most recent
  dirties : Addr → Option Int    -- none = key absent

def JB.empty : JB := { entries := [], dirties := fun _ => none }

/-- `journal.append`: `j.dirties[*addr]++` -/
def JB.append (j : JB) (e : Entry) : JB :=
  { entries := e :: j.entries
    dirties := match e.dirtied with
      | some a => upd j.dirties a (some ((j.dirties a).getD 0 + 1))
      | none => j.dirties }

/-- one iteration of the loop of `journal.revert`: `if j.dirties[*addr]--; j.dirties[*addr] == 0 { delete(j.dirties, *addr) }` -/
def JB.dropDirty (d : Addr → Option Int) (e : Entry) : Addr → Option Int :=
  match e.dirtied with
  | some a => if (d a).getD 0 - 1 = 0 then upd d a none else upd d a (some ((d a).getD 0 - 1))
  | none => d

/-- `journal.revert(statedb, n)` (the bookkeeping half; the undo half is `revertJournal`) -/
def JB.revertAux (n : Nat) : List Entry → (Addr → Option Int) → JB
  | [], d => { entries := [], dirties := d }
  | e :: rest, d =>
    if (e :: rest).length ≤ n then { entries := e :: rest, dirties := d }
    else JB.revertAux n rest (JB.dropDirty d e)

def JB.revert (j : JB) (n : Nat) : JB := JB.revertAux n j.entries j.dirties

/-! ### the undo log of the flat key-value backend (state/keyvalue.go: `wrappedTrie.Commit`, `SaveWAL`, `rebuildLastState`,
`NewKeyValueDBWithCache`, `CanRollBackOneBlock`)

With `isTrie = false` and `cache > 0` the state is ONE flat database.  `StateDB.Commit(height)` first truncates the undo log and
stores `kvh := height` (`SaveWAL`), then every trie commit appends, for each updated key, the value the database holds NOW
(empty = absent) and only then writes the batch.  Opening the backend at block-store height `h` replays the log when
`kvh = h + 1` (the state is one block ahead: crash between the two stores, or `RollBackOneBlock`), does nothing when `kvh = h`
or `kvh = 0`, and panics otherwise.  An update with an empty value is a delete; the database never holds an empty value. -/

abbrev Flat := Nat → Option Bytes

structure KvStore where
  db : Flat
  wal : List (Nat × Bytes)      -- (key, old value or [] for "was absent"), in append order
  kvh : Nat

def KvStore.fresh : KvStore := { db := fun _ => none, wal := [], kvh := 0 }

/-- one record of `wrappedTrie.Commit`: remember the old value, then apply the update (`len(v) == 0` deletes) -/
def kvApply (s : KvStore) (u : Nat × Bytes) : KvStore :=
  { s with wal := s.wal ++ [(u.1, (s.db u.1).getD [])]
           db := upd s.db u.1 (if u.2.isEmpty then none else some u.2) }

/-- `StateDB.Commit(_, height)` on the flat backend: `SaveWAL(height)`, then the updates of all tries -/
def kvCommit (s : KvStore) (height : Nat) (ups : List (Nat × Bytes)) : KvStore :=
  ups.foldl kvApply { s with wal := [], kvh := height }

/-- `rebuildLastState`: `n > 0` restores the old value, otherwise deletes the key -/
def kvRebuild (db : Flat) (wal : List (Nat × Bytes)) : Flat :=
  wal.foldl (fun d r => upd d r.1 (if r.2.isEmpty then none else some r.2)) db

/-- `NewKeyValueDBWithCache(db, cache > 0, false, height)`; `none` = the panic "kvStateHeight is …, blockStoreHeight is …" -/
def kvOpen (s : KvStore) (height : Nat) : Option KvStore :=
  if s.kvh = height then some s
  else if s.kvh = height + 1 then some { s with db := kvRebuild s.db s.wal }
  else if s.kvh = 0 then some s
  else none

/-- `CanRollBackOneBlock` when the undo-log file exists -/
def kvCanRollBack (s : KvStore) (height : Nat) : Bool := decide (height > 0) && decide (s.kvh = height)

end Model.StateDB
