/-
C11: the descriptors of the registered roots that the round-trip theorem covers end to end, pinned as Lean data.
`showTy` renders a descriptor exactly as harness/c11/desc.go does; the driver answers the `pin` op with the rendering of the
terms below, the harness with the rendering of the REAL Go type's descriptor: if a type changes, the correspondence fails.
Core Lean only.
-/
import LinkVerif.Model.Ser

namespace Model.SerRoots
open Model.Ser

mutual
  def showTy : Ty → String
    | .uint n => s!"u{n}"
    | .int n => s!"i{n}"
    | .bool => "b"
    | .bigptr => "G"
    | .bigval => "g"
    | .bytes => "Y"
    | .string => "S"
    | .bytearr n => s!"A{n}"
    | .time => "T"
    | .map20 => "M"
    | .slice e => "L(" ++ showTy e ++ ")"
    | .arr n e => s!"R{n}(" ++ showTy e ++ ")"
    | .struct fs => "Q(" ++ showTys fs ++ ")"
    | .ptr e => "P(" ++ showTy e ++ ")"
    | .cptr false e => "C(" ++ showTy e ++ ")"
    | .cptr true e => "D(" ++ showTy e ++ ")"
    | .cval false e => "c(" ++ showTy e ++ ")"
    | .cval true e => "d(" ++ showTy e ++ ")"
    | .iface ks => "I(" ++ ",".intercalate (ks.map toString) ++ ")"
    | .ref id => s!"@{id}"
    | .split a b => "E(" ++ showTy a ++ "|" ++ showTy b ++ ")"
    | .unsupported => "X"
  def showTys : List Ty → String
    | [] => ""
    | [t] => showTy t
    | t :: ts => showTy t ++ "," ++ showTys ts
end

structure Root where
  name : String
  ty : Ty
  defs : List (Nat × Ty)     -- sorted by id, as the harness emits them

def partSetHeader : Ty := .struct [.int 64, .bytes]
def blockID : Ty := .struct [.bytearr 32, .ref 5]
def header : Ty := .struct [.string, .uint 64, .bytearr 20, .uint 64, .uint 64, .uint 64, .uint 32, .bytearr 32, .ref 4,
  .bytearr 32, .bytearr 32, .bytearr 32, .bytearr 32, .bytearr 32, .bytearr 32, .uint 64, .uint 64, .bytearr 32]
def part : Ty := .struct [.int 64, .bytes, .ref 30]
def simpleProof : Ty := .struct [.slice .bytes]
def bitArray : Ty := .struct [.int 64, .slice (.uint 64)]
def txdata : Ty := .struct [.uint 64, .bigptr, .uint 64, .ptr (.bytearr 20), .bigptr, .bytes, .bigptr, .bigptr, .bigptr]

def roots : List Root := [
  { name := "Header", ty := .ref 21, defs := [(4, blockID), (5, partSetHeader), (21, header)] },
  { name := "BlockID", ty := .ref 4, defs := [(4, blockID), (5, partSetHeader)] },
  { name := "PartSetHeader", ty := .ref 5, defs := [(5, partSetHeader)] },
  { name := "Part", ty := .ref 29, defs := [(29, part), (30, simpleProof)] },
  { name := "Transaction", ty := .cval false (.ref 61), defs := [(61, .ref 62), (62, txdata)] },
  { name := "*consensus.HasVoteMessage", ty := .ptr (.ref 33), defs := [(33, .struct [.uint 64, .int 64, .uint 8, .int 64])] },
  { name := "*consensus.NewRoundStepMessage", ty := .ptr (.ref 34), defs := [(34, .struct [.uint 64, .int 64, .uint 8, .int 64, .int 64])] },
  { name := "*consensus.BlockPartMessage", ty := .ptr (.ref 28),
    defs := [(28, .struct [.uint 64, .int 64, .ptr (.ref 29)]), (29, part), (30, simpleProof)] },
  { name := "*consensus.VoteSetMaj23Message", ty := .ptr (.ref 42),
    defs := [(4, blockID), (5, partSetHeader), (42, .struct [.uint 64, .int 64, .uint 8, .ref 4])] },
  { name := "*consensus.CommitStepMessage", ty := .ptr (.ref 31),
    defs := [(5, partSetHeader), (31, .struct [.uint 64, .ref 5, .ptr (.ref 32)]), (32, bitArray)] },
  { name := "*consensus.ProposalPOLMessage", ty := .ptr (.ref 39),
    defs := [(32, bitArray), (39, .struct [.uint 64, .int 64, .ptr (.ref 32)])] },
  { name := "*consensus.VoteSetBitsMessage", ty := .ptr (.ref 41),
    defs := [(4, blockID), (5, partSetHeader), (32, bitArray), (41, .struct [.uint 64, .int 64, .uint 8, .ref 4, .ptr (.ref 32)])] }
]

def Root.env (r : Root) : Env := { defs := r.defs }

/-- the text both sides answer to `pin root=<name>` -/
def Root.pin (r : Root) : String :=
  "d=" ++ showTy r.ty ++ "".intercalate (r.defs.map (fun (id, t) => s!";{id}=" ++ showTy t))

def pinOf (name : String) : String :=
  match roots.find? (·.name == name) with
  | some r => r.pin
  | none => "unpinned"

end Model.SerRoots
