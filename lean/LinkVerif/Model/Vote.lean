/-
Model of `types/vote.go`, `types/canonical_json.go` and the `BlockID` part of `types/block.go`:
votes, block ids, the signed message of a vote, and its canonical-JSON rendering (`Vote.SignBytes`).
Core Lean only.

Signatures: the model never sees signature bytes.  A signature is a symbolic value
(`Sig.signed key msg` = the deterministic ed25519 signature of key `key` over the sign-bytes of `msg`,
`Sig.bad n` = the n-th garbage byte string, `Sig.nil` = no signature); `Signature.Equals` (byte equality)
is structural equality of these values.  Every function that verifies a signature takes the
verification predicate as a parameter (`Verify`); the driver instantiates it with `symVerify`.
-/
import LinkVerif.Go.Int
import LinkVerif.Gen.ValSetArith

namespace Model.Vote
open Go

/-- `BlockID{Hash, PartsHeader{Total, Hash}}`.  `Equals` and equality of `Key()` are both structural
equality here (`Hash` is a fixed 32-byte array; a nil and an empty parts hash are the same for both). -/
structure BlockID where
  hash : List UInt8
  total : Int
  phash : List UInt8
deriving DecidableEq, Repr, Inhabited

def zeroHash : List UInt8 := List.replicate 32 0

def BlockID.zero : BlockID := ⟨zeroHash, 0, []⟩

/-- `BlockID.IsZero`: zero hash and `PartsHeader.Total == 0` (the parts hash is not looked at) -/
def BlockID.isZero (b : BlockID) : Bool := b.hash == zeroHash && b.total == 0

/-- what `Vote.SignBytes(chainID)` covers: `CanonicalVote` -/
structure Msg where
  chain : List UInt8
  height : Nat
  round : Int
  type : Nat
  bid : BlockID
  /-- `CanonicalTime`: UTC, truncated to milliseconds; kept as milliseconds since the Unix epoch -/
  tsMs : Int
deriving DecidableEq, Repr, Inhabited

inductive Sig where
  | nil
  | bad (n : Nat)
  | signed (key : Nat) (m : Msg)
deriving DecidableEq, Repr, Inhabited

abbrev Verify := Nat → Msg → Sig → Bool

/-- ideal signature functionality used by the driver: only the key's own signature over exactly this message verifies -/
def symVerify : Verify := fun key m s => decide (s = Sig.signed key m)

structure Vote where
  /-- harness bookkeeping (identifies the vote object in answers); no modelled function reads it -/
  id : Nat
  addr : List UInt8
  idx : Int
  size : Int
  height : Nat
  round : Int
  tsSec : Int
  tsNsec : Nat
  type : Nat
  bid : BlockID
  sig : Sig
deriving DecidableEq, Repr, Inhabited

def typePrevote : Nat := 1
def typePrecommit : Nat := 2

def msgOf (chain : List UInt8) (v : Vote) : Msg :=
  { chain := chain, height := v.height, round := v.round, type := v.type, bid := v.bid,
    tsMs := v.tsSec * 1000 + (v.tsNsec / 1000000 : Nat) }

/-- a validator: address, address derived from its public key, key id, voting power -/
structure Val where
  addr : List UInt8
  kaddr : List UInt8
  key : Nat
  power : Int
deriving DecidableEq, Repr, Inhabited

/-- `TotalVotingPower`: clipped sum in slice order (the clip is the T1 translation of the Go source) -/
def totalPower (vals : List Val) : Int :=
  vals.foldl (fun acc v => Gen.ValSetArith.safeAddClip acc v.power) 0

/-! ## Canonical JSON (`ser.MarshalJSON (CanonicalVote chainID vote)`) -/

def hexUp (n : Nat) : Char := if n < 10 then Char.ofNat (48 + n) else Char.ofNat (55 + n)
def hexLo (n : Nat) : Char := if n < 10 then Char.ofNat (48 + n) else Char.ofNat (87 + n)

def hexUpper (bs : List UInt8) : List Char :=
  bs.foldr (fun b acc => hexUp (b.toNat / 16) :: hexUp (b.toNat % 16) :: acc) []
def hexLower (bs : List UInt8) : List Char :=
  bs.foldr (fun b acc => hexLo (b.toNat / 16) :: hexLo (b.toNat % 16) :: acc) []

/-- Go `encoding/json` string escaping with HTML escaping on, for ASCII bytes (0x00..0x7f) -/
def jsonEscByte (b : UInt8) : List Char :=
  let n := b.toNat
  if n = 34 then ['\\', '"']
  else if n = 92 then ['\\', '\\']
  else if n = 10 then ['\\', 'n']
  else if n = 13 then ['\\', 'r']
  else if n = 9 then ['\\', 't']
  else if n < 32 ∨ n = 60 ∨ n = 62 ∨ n = 38 then ['\\', 'u', '0', '0', hexLo (n / 16), hexLo (n % 16)]
  else [Char.ofNat n]

def jsonEsc (bs : List UInt8) : List Char := bs.flatMap jsonEscByte

def pad (w : Nat) (n : Nat) : List Char :=
  let ds := (toString n).toList
  List.replicate (w - ds.length) '0' ++ ds

/-- civil date (year, month, day) of a day count since 1970-01-01 (proleptic Gregorian) -/
def civil (days : Int) : Int × Int × Int :=
  let z := days + 719468
  let era := z / 146097
  let doe := z - era * 146097
  let yoe := (doe - doe / 1460 + doe / 36524 - doe / 146096) / 365
  let doy := doe - (365 * yoe + yoe / 4 - yoe / 100)
  let mp := (5 * doy + 2) / 153
  let d := doy - (153 * mp + 2) / 5 + 1
  let m := if mp < 10 then mp + 3 else mp - 9
  let y := yoe + era * 400 + (if m ≤ 2 then 1 else 0)
  (y, m, d)

/-- `CanonicalTime`: "2006-01-02T15:04:05.000Z" (years 1..9999) -/
def canonicalTime (ms : Int) : List Char :=
  let secs := ms / 1000
  let milli := (ms % 1000).toNat
  let days := secs / 86400
  let sod := (secs % 86400).toNat
  let (y, m, d) := civil days
  pad 4 y.toNat ++ ['-'] ++ pad 2 m.toNat ++ ['-'] ++ pad 2 d.toNat ++ ['T'] ++
    pad 2 (sod / 3600) ++ [':'] ++ pad 2 (sod % 3600 / 60) ++ [':'] ++ pad 2 (sod % 60) ++ ['.'] ++ pad 3 milli ++ ['Z']

def q (cs : List Char) : List Char := '"' :: cs ++ ['"']
def str (s : String) : List Char := s.toList

/-- a JSON object from the non-omitted fields -/
def obj (fields : List (Option (List Char))) : List Char :=
  '{' :: (",".toList.intercalate (fields.filterMap id)) ++ ['}']

def field (name : String) (val : List Char) : Option (List Char) := some (q (str name) ++ [':'] ++ val)

def partsJSON (b : BlockID) : Option (List Char) :=
  if b.phash.isEmpty ∧ b.total = 0 then none
  else field "parts" (obj [ if b.phash.isEmpty then none else field "hash" (q (hexUpper b.phash)),
                            if b.total = 0 then none else field "total" (q (str (toString b.total))) ])

def blockIDJSON (b : BlockID) : List Char :=
  obj [ if b.hash = zeroHash then none else field "hash" (q ('0' :: 'x' :: hexLower b.hash)), partsJSON b ]

/-- `Vote.SignBytes`, as characters (all ASCII for ASCII chain ids) -/
def signBytes (m : Msg) : List Char :=
  obj [ field "@chain_id" (q (jsonEsc m.chain)), field "@type" (q (str "vote")), field "block_id" (blockIDJSON m.bid),
        field "height" (q (str (toString m.height))), field "round" (q (str (toString m.round))),
        field "timestamp" (q (canonicalTime m.tsMs)), field "type" (str (toString m.type)) ]

/-! ## duplicate-vote evidence (types/evidence.go DuplicateVoteEvidence.Verify) -/

inductive DupErr where
  | ok | hrs | addr | index | sameBlock | pubkey | sigA | sigB
deriving DecidableEq, Repr

/-- the checks in the order of the code; `kaddr` = address of the public key the evidence is verified with -/
def dupEvVerify (verify : Verify) (chain : List UInt8) (key : Nat) (kaddr : List UInt8) (a b : Vote) : DupErr :=
  if a.height ≠ b.height ∨ a.round ≠ b.round ∨ a.type ≠ b.type then .hrs
  else if a.addr ≠ b.addr then .addr
  else if a.idx ≠ b.idx then .index
  else if a.bid = b.bid then .sameBlock
  else if kaddr ≠ a.addr then .pubkey
  else if !verify key (msgOf chain a) a.sig then .sigA
  else if !verify key (msgOf chain b) b.sig then .sigB
  else .ok

end Model.Vote
