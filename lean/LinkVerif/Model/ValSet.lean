/-
Model of `types/validator_set.go` (ValidatorSet rotation, totals, updates).
Core Lean only.  The clip arithmetic is NOT hand-written: it is the T1 translation of the
current Go source (`Gen.ValSetArith`).

Addresses are fixed-length (20-byte) strings in the code (`crypto.Address`), so `bytes.Compare`
on them coincides with comparison of their big-endian value; the model keeps that value as a `Nat`.
-/
import LinkVerif.Go.Int
import LinkVerif.Gen.ValSetArith

namespace Model.ValSet
open Gen.ValSetArith

structure Val where
  addr : Nat
  power : Int
  accum : Int
deriving Repr, DecidableEq, Inhabited

/-- `ValidatorSet`: validators sorted by address + the proposer pointer (by address) -/
structure VS where
  vals : List Val
  proposer : Option Nat
deriving Repr, DecidableEq, Inhabited

/-- `TotalVotingPower`: clipped sum, in slice order -/
def totalPower (vals : List Val) : Int :=
  vals.foldl (fun acc v => safeAddClip acc v.power) 0

/-- `CompareAccum`: `a` wins over `b` (higher accum, ties to the lower address) -/
def beats (a b : Val) : Bool :=
  decide (a.accum > b.accum) || (decide (a.accum = b.accum) && decide (a.addr < b.addr))

/-- the heap's top element = the maximum under `beats` -/
def argmax : List Val → Option Val
  | [] => none
  | v :: rest =>
    match argmax rest with
    | none => some v
    | some m => if beats m v then some m else some v

/-- subtract `total` from the validator at address `a` (clipped) -/
def decrAt (vals : List Val) (a : Nat) (total : Int) : List Val :=
  vals.map (fun v => if v.addr = a then { v with accum := safeSubClip v.accum total } else v)

/-- the second loop of `IncrementAccum`: `n` times take the maximum and subtract the total;
the last one taken becomes the proposer.  `none` = Go panics (`Peek()` of an empty heap is nil). -/
def decrLoop (total : Int) : Nat → List Val → Option Nat → Option (List Val × Option Nat)
  | 0, vals, p => some (vals, p)
  | n + 1, vals, _ =>
    match argmax vals with
    | none => none
    | some m => decrLoop total n (decrAt vals m.addr total) (some m.addr)

/-- `IncrementAccum(times)` exactly as the code has it (bulk add, then `times` decrements).
`times ≤ 0` runs the first loop only. -/
def incrBulk (times : Int) (vs : VS) : Option VS :=
  let vals1 := vs.vals.map (fun v => { v with accum := safeAddClip v.accum (safeMulClip v.power times) })
  let total := totalPower vals1
  match decrLoop total times.toNat vals1 vs.proposer with
  | none => none
  | some (vals2, p) => some { vals := vals2, proposer := p }

/-- one rotation step = `IncrementAccum(1)` -/
def incr1 (vs : VS) : Option VS := incrBulk 1 vs

/-- `n` single rotation steps (what a node does that visits every round / every block) -/
def incrStep : Nat → VS → Option VS
  | 0, vs => some vs
  | n + 1, vs => (incr1 vs).bind (incrStep n)

def leAddr (a b : Val) : Bool := decide (a.addr ≤ b.addr)

/-- `NewValidatorSet`: copy, sort by address, one rotation if non-empty -/
def newVS (vals : List Val) : Option VS :=
  let sorted := vals.mergeSort leAddr
  if vals.isEmpty then some { vals := sorted, proposer := none }
  else incr1 { vals := sorted, proposer := none }

/-- `findProposer` (used by `GetProposer` when the cache is nil) -/
def findProposer (vals : List Val) : Option Val :=
  vals.foldl (fun (p : Option Val) v =>
    match p with
    | none => some v
    | some q => if q.addr = v.addr then some q else (if beats q v then some q else some v)) none

def getProposer (vs : VS) : Option Nat :=
  if vs.vals.isEmpty then none else
  match vs.proposer with
  | some a => some a
  | none => (findProposer vs.vals).map (·.addr)

/-- the identity-relevant content: what `Hash` covers (address and power; pubkey and coinbase are
functions of the address in the harness) -/
def content (vs : VS) : List (Nat × Int) := vs.vals.map (fun v => (v.addr, v.power))

def insertSorted (v : Val) : List Val → List Val
  | [] => [v]
  | w :: rest => if v.addr ≤ w.addr then v :: w :: rest else w :: insertSorted v rest

/-- `Add` -/
def add (vs : VS) (v : Val) : VS × Bool :=
  if vs.vals.any (fun w => w.addr = v.addr) then (vs, false)
  else ({ vals := insertSorted v vs.vals, proposer := none }, true)

/-- `Update` -/
def update (vs : VS) (v : Val) : VS × Bool :=
  if vs.vals.any (fun w => w.addr = v.addr) then
    ({ vals := vs.vals.map (fun w => if w.addr = v.addr then v else w), proposer := none }, true)
  else (vs, false)

/-- `Remove` -/
def remove (vs : VS) (a : Nat) : VS × Bool :=
  if vs.vals.any (fun w => w.addr = a) then
    ({ vals := vs.vals.filter (fun w => w.addr ≠ a), proposer := none }, true)
  else (vs, false)

/-- `updateStatus`'s validator part: a non-empty candidate list whose identity differs replaces the
set; otherwise one rotation step -/
def nextValSet (cur : VS) (cands : List Val) : Option VS :=
  if cands.isEmpty then incr1 cur else
  match newVS cands with
  | none => none
  | some nvs => if content nvs ≠ content cur then some nvs else incr1 cur

end Model.ValSet
