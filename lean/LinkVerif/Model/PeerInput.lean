/-
Model for C16: the partial operations that peer-controlled values reach on the consensus receive path, with Go's
partiality explicit (`Except Fault`).  Each handler is modelled twice: as the code is NOW (with the guards of the
`fix:` commits) and as it was (`…Unguarded`), so that the theorems say exactly what the guards buy.  Core Lean only.
-/
deriving instance DecidableEq for Except

namespace Model.PeerInput

inductive Fault where
  | panic (site : String)       -- Go run-time panic: receiveRoutine's recover logs and returns, consensus halts
  | oom (bytes : Nat)           -- allocation request above the bound: a Go out-of-memory is a fatal error
deriving Repr, DecidableEq

inductive Reply where
  | rejected (err : String)     -- error returned / message ignored; state unchanged
  | accepted
deriving Repr, DecidableEq

/-- Go slice indexing `xs[i]` with an `int` index -/
def index {α : Type} (xs : List α) (i : Int) (site : String) : Except Fault α :=
  if i < 0 then .error (.panic site)
  else match xs[i.toNat]? with
    | some x => .ok x
    | none => .error (.panic site)

/-- Go `make([]T, n)` with element size `sz`: panics for n < 0 or n beyond the address space, otherwise allocates -/
def makeSlice (n : Int) (sz : Nat) (bound : Nat) (site : String) : Except Fault Nat :=
  if n < 0 ∨ n > 2 ^ 47 then .error (.panic site)
  else if n.toNat * sz > bound then .error (.oom (n.toNat * sz))
  else .ok n.toNat

/-! ### PartSet.AddPart -/

structure PartSet where
  total : Int
  parts : List (Option Nat)     -- `parts[i] = some bytesId`
deriving Repr, DecidableEq

/-- `AddPart` as it is now: `part.Index < 0 || part.Index >= ps.total` is rejected first -/
def addPart (ps : PartSet) (idx : Int) (proofOk : Bool) : Except Fault Reply :=
  if idx < 0 ∨ idx ≥ ps.total then .ok (.rejected "ErrPartSetUnexpectedIndex")
  else do
    let cur ← index ps.parts idx "types.(*PartSet).AddPart"
    match cur with
    | some _ => .ok (.rejected "duplicate")
    | none => if proofOk then .ok .accepted else .ok (.rejected "ErrPartSetInvalidProof")

/-- `AddPart` before fix 22a07c6: upper bound only -/
def addPartUnguarded (ps : PartSet) (idx : Int) (proofOk : Bool) : Except Fault Reply :=
  if idx ≥ ps.total then .ok (.rejected "ErrPartSetUnexpectedIndex")
  else do
    let cur ← index ps.parts idx "types.(*PartSet).AddPart"
    match cur with
    | some _ => .ok (.rejected "duplicate")
    | none => if proofOk then .ok .accepted else .ok (.rejected "ErrPartSetInvalidProof")

/-- a part set as `NewPartSetFromHeader` / `NewPartSetFromData` build it -/
def PartSet.WF (ps : PartSet) : Prop := 0 ≤ ps.total ∧ ps.parts.length = ps.total.toNat

/-! ### defaultSetProposal / reactor: the part-set total sizes two allocations -/

/-- bytes requested by `NewPartSetFromHeader(total)`: `make([]*Part, total)` + the bit array -/
def newPartSetFromHeader (total : Int) (bound : Nat) : Except Fault Nat := do
  let n ← makeSlice total 8 bound "types.NewPartSetFromHeader"
  let _ ← makeSlice ((total + 63) / 64) 8 bound "common.NewBitArray"
  .ok n

/-- `defaultSetProposal` now: the total is checked against `maxBlockParts` before anything is allocated -/
def setProposal (total : Int) (maxParts : Int) (sigOk : Bool) (bound : Nat) : Except Fault Reply :=
  if total ≤ 0 ∨ total > maxParts then .ok (.rejected "ErrInvalidProposalPartsHeader")
  else if !sigOk then .ok (.rejected "ErrInvalidProposalSignature")
  else do
    let _ ← newPartSetFromHeader total bound
    .ok .accepted

/-- before fix 1b2bd5e -/
def setProposalUnguarded (total : Int) (sigOk : Bool) (bound : Nat) : Except Fault Reply :=
  if !sigOk then .ok (.rejected "ErrInvalidProposalSignature")
  else do
    let _ ← newPartSetFromHeader total bound
    .ok .accepted

/-! ### addProposalBlockPart: the decoded block may lack components -/

structure DecodedBlock where
  header : Option Nat     -- `some recover`
  data : Bool
  lastCommit : Bool
deriving Repr, DecidableEq

/-- now: nil components are rejected before `cs.ProposalBlock.Recover` is read -/
def blockComplete (b : DecodedBlock) (localRecover : Nat) : Except Fault Reply :=
  match b.header, b.data, b.lastCommit with
  | some r, true, true => if r ≠ localRecover then .ok (.rejected "recover mismatch") else .ok .accepted
  | _, _, _ => .ok (.rejected "missing header, data or last commit")

/-- before fix 57636e2 -/
def blockCompleteUnguarded (b : DecodedBlock) (localRecover : Nat) : Except Fault Reply :=
  match b.header with
  | none => .error (.panic "consensus.(*ConsensusState).addProposalBlockPart")
  | some r => if r ≠ localRecover then .ok (.rejected "recover mismatch") else .ok .accepted

/-! ### checkFaultValEvidence / VerifyFaultValEvidence: `FirstPrecommit()` of an empty commit is nil -/

/-- `firstPrecommit = none` for a nil commit or one without precommits -/
def faultEvidence (firstPrecommitRound : Option Int) (evRound : Int) : Except Fault Reply :=
  match firstPrecommitRound with
  | none => .ok (.rejected "evidence for a commit without precommits")
  | some r => if r = evRound then .ok .accepted else .ok (.rejected "round mismatch")

/-- before fix fbb7978 -/
def faultEvidenceUnguarded (firstPrecommitRound : Option Int) (evRound : Int) : Except Fault Reply :=
  match firstPrecommitRound with
  | none => .error (.panic "consensus.(*ConsensusState).checkFaultValEvidence")
  | some r => if r = evRound then .ok .accepted else .ok (.rejected "round mismatch")

/-! ### addVote, the "precommit for the previous height" branch -/

/-- `addVote` for a precommit of height cs.Height − 1 received in the NewHeight step: added to `cs.LastCommit`, which
does not exist (nil) at the first height.  As the code is now (fix 26762b7): no last commit → rejected -/
def stragglerPrecommit (hasLastCommit : Bool) : Except Fault Reply :=
  if !hasLastCommit then .ok (.rejected "ErrVoteHeightMismatch") else .ok .accepted

/-- before the fix: `VoteSet.AddVote` on the nil vote set is a PanicSanity -/
def stragglerPrecommitUnguarded (hasLastCommit : Bool) : Except Fault Reply :=
  if !hasLastCommit then .error (.panic "types.(*VoteSet).AddVote") else .ok .accepted

/-! ### fault-validator evidence: the keys it names -/

/-- `checkFaultValEvidence` / `VerifyFaultValEvidence` after the round/height test, as the code is now (fix 60a9b13):
evidence without a proposer key, or without the fault validator's key for a commit round above 0, is rejected -/
def faultEvidenceKeys (commitRound : Int) (proposerNil faultValNil : Bool) : Except Fault Reply :=
  if proposerNil ∨ (commitRound ≠ 0 ∧ faultValNil) then .ok (.rejected "evidence without keys") else .ok .accepted

/-- before the fix: `ev.Proposer.Address()` / `ev.FaultVal.Address()` on the nil interface value -/
def faultEvidenceKeysUnguarded (commitRound : Int) (proposerNil faultValNil : Bool) : Except Fault Reply :=
  if commitRound = 0 then
    (if !faultValNil then .ok (.rejected "FaultVal not nil when round 0")
     else if proposerNil then .error (.panic "consensus.(*ConsensusState).checkFaultValEvidence") else .ok .accepted)
  else if faultValNil ∨ proposerNil then .error (.panic "consensus.(*ConsensusState).checkFaultValEvidence") else .ok .accepted

end Model.PeerInput
