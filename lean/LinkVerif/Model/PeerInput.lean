/-
Model for C16: the partial operations that peer-controlled values reach on the consensus receive path, with Go's
partiality explicit (`Except Fault`).  Each handler is modelled twice: as the code is NOW (with the guards of the
`fix:` commits) and as it was (`…Unguarded`), so that the theorems say exactly what the guards buy.  Core Lean only.
-/
deriving instance DecidableEq for Except

namespace Model.PeerInput

inductive Fault where
  | panic (site : String)       -- Go run-time panic: receiveRoutine's recover logs and returns, consensus halts
  | oom (bytes : Nat)           -- allocation request above the bound: a Go out-of-memory is a fatal error
deriving Repr, DecidableEq

inductive Reply where
  | rejected (err : String)     -- error returned / message ignored; state unchanged
  | accepted
deriving Repr, DecidableEq

/-- Go slice indexing `xs[i]` with an `int` index -/
def index {α : Type} (xs : List α) (i : Int) (site : String) : Except Fault α :=
  if i < 0 then .error (.panic site)
  else match xs[i.toNat]? with
    | some x => .ok x
    | none => .error (.panic site)

/-- Go `make([]T, n)` with element size `sz`: panics for n < 0 or n beyond the address space, otherwise allocates -/
def makeSlice (n : Int) (sz : Nat) (bound : Nat) (site : String) : Except Fault Nat :=
  if n < 0 ∨ n > 2 ^ 47 then .error (.panic site)
  else if n.toNat * sz > bound then .error (.oom (n.toNat * sz))
  else .ok n.toNat

/-! ### PartSet.AddPart -/

structure PartSet where
  total : Int
  parts : List (Option Nat)     -- `parts[i] = some bytesId`
deriving Repr, DecidableEq

/-- `AddPart` as it is now: `part.Index < 0 || part.Index >= ps.total` is rejected first -/
def addPart (ps : PartSet) (idx : Int) (proofOk : Bool) : Except Fault Reply :=
  if idx < 0 ∨ idx ≥ ps.total then .ok (.rejected "ErrPartSetUnexpectedIndex")
  else do
    let cur ← index ps.parts idx "types.(*PartSet).AddPart"
    match cur with
    | some _ => .ok (.rejected "duplicate")
    | none => if proofOk then .ok .accepted else .ok (.rejected "ErrPartSetInvalidProof")

/-- `AddPart` before fix 22a07c6: upper bound only -/
def addPartUnguarded (ps : PartSet) (idx : Int) (proofOk : Bool) : Except Fault Reply :=
  if idx ≥ ps.total then .ok (.rejected "ErrPartSetUnexpectedIndex")
  else do
    let cur ← index ps.parts idx "types.(*PartSet).AddPart"
    match cur with
    | some _ => .ok (.rejected "duplicate")
    | none => if proofOk then .ok .accepted else .ok (.rejected "ErrPartSetInvalidProof")

/-- a part set as `NewPartSetFromHeader` / `NewPartSetFromData` build it -/
def PartSet.WF (ps : PartSet) : Prop := 0 ≤ ps.total ∧ ps.parts.length = ps.total.toNat

/-! ### defaultSetProposal / reactor: the part-set total sizes two allocations -/

/-- bytes requested by `NewPartSetFromHeader(total)`: `make([]*Part, total)` + the bit array -/
def newPartSetFromHeader (total : Int) (bound : Nat) : Except Fault Nat := do
  let n ← makeSlice total 8 bound "types.NewPartSetFromHeader"
  let _ ← makeSlice ((total + 63) / 64) 8 bound "common.NewBitArray"
  .ok n

/-- `defaultSetProposal` now: the total is checked against `maxBlockParts` before anything is allocated -/
def setProposal (total : Int) (maxParts : Int) (sigOk : Bool) (bound : Nat) : Except Fault Reply :=
  if total ≤ 0 ∨ total > maxParts then .ok (.rejected "ErrInvalidProposalPartsHeader")
  else if !sigOk then .ok (.rejected "ErrInvalidProposalSignature")
  else do
    let _ ← newPartSetFromHeader total bound
    .ok .accepted

/-- before fix 1b2bd5e -/
def setProposalUnguarded (total : Int) (sigOk : Bool) (bound : Nat) : Except Fault Reply :=
  if !sigOk then .ok (.rejected "ErrInvalidProposalSignature")
  else do
    let _ ← newPartSetFromHeader total bound
    .ok .accepted

/-! ### addProposalBlockPart: the decoded block may lack components -/

structure DecodedBlock where
  header : Option Nat     -- `some recover`
  data : Bool
  lastCommit : Bool
deriving Repr, DecidableEq

/-- now: nil components are rejected before `cs.ProposalBlock.Recover` is read -/
def blockComplete (b : DecodedBlock) (localRecover : Nat) : Except Fault Reply :=
  match b.header, b.data, b.lastCommit with
  | some r, true, true => if r ≠ localRecover then .ok (.rejected "recover mismatch") else .ok .accepted
  | _, _, _ => .ok (.rejected "missing header, data or last commit")

/-- before fix 57636e2 -/
def blockCompleteUnguarded (b : DecodedBlock) (localRecover : Nat) : Except Fault Reply :=
  match b.header with
  | none => .error (.panic "consensus.(*ConsensusState).addProposalBlockPart")
  | some r => if r ≠ localRecover then .ok (.rejected "recover mismatch") else .ok .accepted

/-! ### checkFaultValEvidence / VerifyFaultValEvidence: `FirstPrecommit()` of an empty commit is nil -/

/-- `firstPrecommit = none` for a nil commit or one without precommits -/
def faultEvidence (firstPrecommitRound : Option Int) (evRound : Int) : Except Fault Reply :=
  match firstPrecommitRound with
  | none => .ok (.rejected "evidence for a commit without precommits")
  | some r => if r = evRound then .ok .accepted else .ok (.rejected "round mismatch")

/-- before fix fbb7978 -/
def faultEvidenceUnguarded (firstPrecommitRound : Option Int) (evRound : Int) : Except Fault Reply :=
  match firstPrecommitRound with
  | none => .error (.panic "consensus.(*ConsensusState).checkFaultValEvidence")
  | some r => if r = evRound then .ok .accepted else .ok (.rejected "round mismatch")

/-! ### addVote, the "precommit for the previous height" branch -/

/-- `addVote` for a precommit of height cs.Height − 1 received in the NewHeight step: added to `cs.LastCommit`, which
does not exist (nil) at the first height.  As the code is now (fix 26762b7): no last commit → rejected -/
def stragglerPrecommit (hasLastCommit : Bool) : Except Fault Reply :=
  if !hasLastCommit then .ok (.rejected "ErrVoteHeightMismatch") else .ok .accepted

/-- before the fix: `VoteSet.AddVote` on the nil vote set is a PanicSanity -/
def stragglerPrecommitUnguarded (hasLastCommit : Bool) : Except Fault Reply :=
  if !hasLastCommit then .error (.panic "types.(*VoteSet).AddVote") else .ok .accepted

/-! ### fault-validator evidence: the keys it names -/

/-- `checkFaultValEvidence` / `VerifyFaultValEvidence` after the round/height test, as the code is now (fix 60a9b13):
evidence without a proposer key, or without the fault validator's key for a commit round above 0, is rejected -/
def faultEvidenceKeys (commitRound : Int) (proposerNil faultValNil : Bool) : Except Fault Reply :=
  if proposerNil ∨ (commitRound ≠ 0 ∧ faultValNil) then .ok (.rejected "evidence without keys") else .ok .accepted

/-- before the fix: `ev.Proposer.Address()` / `ev.FaultVal.Address()` on the nil interface value -/
def faultEvidenceKeysUnguarded (commitRound : Int) (proposerNil faultValNil : Bool) : Except Fault Reply :=
  if commitRound = 0 then
    (if !faultValNil then .ok (.rejected "FaultVal not nil when round 0")
     else if proposerNil then .error (.panic "consensus.(*ConsensusState).checkFaultValEvidence") else .ok .accepted)
  else if faultValNil ∨ proposerNil then .error (.panic "consensus.(*ConsensusState).checkFaultValEvidence") else .ok .accepted

/-! ### defaultSetProposal as a whole: the recover branch runs BEFORE the signature check -/

inductive PType where
  | normal | recover | other
deriving Repr, DecidableEq

/-- what C16 says an invalid input must leave alone, as far as `defaultSetProposal` touches it -/
structure ConsView where
  height : Nat
  round : Int
  hasProposal : Bool        -- cs.Proposal != nil
  commitStep : Bool         -- cstypes.RoundStepCommit <= cs.Step
  stepRecover : Bool
  recoverCount : Nat        -- cs.recover
  recoverSet : Bool         -- cs.Validators was replaced by NewValidatorSet(GetRecoverValidators(height-1))
  votesHeld : Nat           -- votes in cs.Votes (replaced by an EMPTY HeightVoteSet in the recover branch)
deriving Repr, DecidableEq

structure ProposalIn where
  type : PType
  height : Nat
  round : Int
  polRound : Int
  total : Int
  sigOk : Bool              -- the signature verifies against the proposer of cs.Validators AT THE TIME IT IS CHECKED
deriving Repr, DecidableEq

/-- `timeoutRecoverLimit`, minutes -/
def recoverLimit : Nat := 12

/-- `defaultSetProposal` as the code is (consensus/state.go), `elapsed` = whole minutes of wall clock since cs.StartTime.
Order of the code kept: proposal already held; the RECOVER branch (height/round test, time test, then timer reset,
stepRecover, validators and votes replaced, enterNewRound(height, Round+1) which bumps the recover counter and clears the
proposal fields); only then height/round, commit step, POL round, part-set total, SIGNATURE. -/
def setProposalFull (st : ConsView) (p : ProposalIn) (elapsed : Nat) (maxParts : Int) : ConsView × Reply :=
  if st.hasProposal then (st, .rejected "already have a proposal")
  else
    let go (st' : ConsView) : ConsView × Reply :=
      if p.height ≠ st'.height ∨ p.round ≠ st'.round then (st', .rejected "does not apply")
      else if st'.commitStep then (st', .rejected "already in commit step")
      else if p.polRound ≠ -1 ∧ (p.polRound < 0 ∨ p.round ≤ p.polRound) then (st', .rejected "ErrInvalidProposalPOLRound")
      else if p.total ≤ 0 ∨ p.total > maxParts then (st', .rejected "ErrInvalidProposalPartsHeader")
      else if !p.sigOk then (st', .rejected "ErrInvalidProposalSignature")
      else ({ st' with hasProposal := true }, .accepted)
    if p.type = .recover ∧ st.stepRecover = false then
      if p.height ≠ st.height ∨ p.round ≤ st.round then (st, .rejected "height or round mismatch")
      else if elapsed < recoverLimit then (st, .rejected "not the right time")
      else go { st with stepRecover := true, recoverSet := true, votesHeld := 0, round := st.round + 1,
                        recoverCount := st.recoverCount + 1, commitStep := false }
    else go st

/-! ### HeightVoteSet.AddVote: the per-peer allowance of two catch-up rounds -/

/-- the rounds a HeightVoteSet holds (each a prevote + a precommit VoteSet) and `peerCatchupRounds` as (peer, round) charges -/
structure Hvs where
  rounds : List Int
  charges : List (String × Int)
deriving Repr, DecidableEq

def Hvs.chargedTo (h : Hvs) (peer : String) : Nat := (h.charges.filter (fun c => c.1 == peer)).length

/-- one vote as `AddVote` sees it: its round, whether its type is valid, and the verdict `VoteSet.AddVote` WOULD give
(signature, index, address …) — which the allowance does not depend on -/
structure VoteIn where
  round : Int
  typeValid : Bool
  acceptable : Bool
deriving Repr, DecidableEq

/-- `HeightVoteSet.AddVote` as the code is: unknown round → if the peer has fewer than 2 charges the round is opened and
the peer is charged BEFORE the vote is judged, otherwise ErrGotVoteFromUnwantedRound -/
def Hvs.addVote (h : Hvs) (v : VoteIn) (peer : String) : Hvs × Reply :=
  if !v.typeValid then (h, .rejected "invalid vote type")
  else if h.rounds.contains v.round then (h, if v.acceptable then .accepted else .rejected "vote refused by the vote set")
  else if h.chargedTo peer < 2 then
    ({ rounds := v.round :: h.rounds, charges := (peer, v.round) :: h.charges },
     if v.acceptable then .accepted else .rejected "vote refused by the vote set")
  else (h, .rejected "ErrGotVoteFromUnwantedRound")

/-- a whole stream of votes from one peer -/
def Hvs.addVotes (h : Hvs) (vs : List VoteIn) (peer : String) : Hvs := vs.foldl (fun h v => (h.addVote v peer).1) h

end Model.PeerInput
