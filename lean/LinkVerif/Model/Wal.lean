/-
C14 model: the consensus write-ahead log at byte level (core Lean only).

  consensus/wal.go            WALEncoder.Encode  : crc32c(4, big endian) | length(4, big endian) | payload
                              WALDecoder.Decode  : bare `Read`s on the underlying reader, length bound, CRC before decode
                              baseWAL.SearchForEndHeight : files newest first, every scan runs from the first byte of
                                                    that file to the end of the group
  libs/autofile/group.go      Group.Write (through a bufio.Writer of `B` bytes), Flush (+Sync), RotateFile (flushes the
                              bufio buffer, then renames the head — fix ed188e7; the model keeps a switch
                              `flushFirst` so that the old behaviour stays expressible), GroupReader.Read (spans files, fills the
                              slice or returns the error of the failed open: io.EOF after the last file)

The payload codec (libs/ser, property C11) is abstract: `Codec.ok` says whether `ser.DecodeBytes` accepts a payload,
`Codec.eh` recognises an `EndHeightMessage` and yields its height.  A decoded message is represented by its payload bytes.
The model follows the code that exists, defects included (non-corruption errors on torn tails: finding
`wal-search-torn-tail`; the un-flushed rotation was repaired by ed188e7).
-/
namespace Model.Wal

abbrev Bytes := List UInt8

/-- `binary.BigEndian.PutUint32` -/
def be32 (n : Nat) : Bytes :=
  [UInt8.ofNat (n / 16777216 % 256), UInt8.ofNat (n / 65536 % 256), UInt8.ofNat (n / 256 % 256), UInt8.ofNat (n % 256)]

/-- `binary.BigEndian.Uint32` of the first four bytes -/
def rd32 : Bytes → Nat
  | a :: b :: c :: d :: _ => a.toNat * 16777216 + b.toNat * 65536 + c.toNat * 256 + d.toNat
  | _ => 0

structure Codec where
  /-- checksum of a payload (CRC-32C in the code); values are `< 2^32` -/
  crc : Bytes → Nat
  /-- `ser.DecodeBytes(data, &TimedWALMessage{})` succeeds -/
  ok : Bytes → Bool
  /-- the payload is an `EndHeightMessage{h}` -/
  eh : Bytes → Option Nat
  /-- `maxMsgSizeBytes` -/
  maxMsg : Nat

/-- the bytes `WALEncoder.Encode` produces for a payload it accepts (see `Group.encodeWrite` for the size check) -/
def frame (c : Codec) (p : Bytes) : Bytes := be32 (c.crc p) ++ be32 p.length ++ p

def frames (c : Codec) (ps : List Bytes) : Bytes := (ps.map (frame c)).flatten

/-- how the byte stream of a reader ends: after the last file of the group (`io.EOF`), or with a failed
`os.Open` of the head (the head does not exist between `RotateFile` and the next flush) -/
inductive Tail
  | eof | openErr
deriving DecidableEq, Repr

/-- result of one `WALDecoder.Decode` -/
inductive Res
  | msg (p : Bytes)   -- a decoded record, identified by its payload
  | eof               -- io.EOF
  | corrupt           -- DataCorruptionError (checksum mismatch or ser decode failure)
  | errCrc            -- "failed to read checksum" (non-EOF error)
  | errLen            -- "failed to read length"
  | errBig            -- "length … exceeded maximum possible value"
  | errData           -- "failed to read data"
deriving DecidableEq, Repr

def Res.isMsg : Res → Bool
  | .msg _ => true
  | _ => false

/-- One `WALDecoder.Decode` on a `GroupReader` positioned at `s` (the remaining bytes of all remaining files).
`GroupReader.Read(p)` fills `p` completely or consumes everything and returns the error that ended the stream;
it refuses an empty `p` ("given empty slice").  The decoder ignores byte counts and looks only at the error. -/
def decode1 (c : Codec) (t : Tail) (s : Bytes) : Res × Bytes :=
  if s.length < 4 then ((match t with | .eof => Res.eof | .openErr => Res.errCrc), [])
  else if s.length < 8 then (Res.errLen, [])
  else
    let crc := rd32 s
    let len := rd32 (s.drop 4)
    let body := s.drop 8
    if len > c.maxMsg then (Res.errBig, body)
    else if len = 0 then (Res.errData, body)
    else if body.length < len then (Res.errData, [])
    else
      let data := body.take len
      let rest := body.drop len
      if c.crc data = crc ∧ c.ok data = true then (Res.msg data, rest) else (Res.corrupt, rest)

/-- decode until the first result that is not a message (fuel: every message consumes at least 9 bytes) -/
def decodeAllF (c : Codec) (t : Tail) : Nat → Bytes → List Bytes × Res
  | 0, _ => ([], Res.eof)
  | f + 1, s =>
    match decode1 c t s with
    | (Res.msg p, rest) => let r := decodeAllF c t f rest; (p :: r.1, r.2)
    | (r, _) => ([], r)

/-- the sequence of (message | terminal) a reader loop `for { Decode() }` observes -/
def decodeAll (c : Codec) (t : Tail) (s : Bytes) : List Bytes × Res := decodeAllF c t (s.length + 1) s

/-- as `decodeAll`, but continuing after `corrupt` (the loop of SearchForEndHeight with
IgnoreDataCorruptionErrors); the trace lists every result, terminal last -/
def traceF (c : Codec) (t : Tail) (skip : Bool) : Nat → Bytes → List Res
  | 0, _ => [Res.eof]
  | f + 1, s =>
    match decode1 c t s with
    | (Res.msg p, rest) => Res.msg p :: traceF c t skip f rest
    | (Res.corrupt, rest) => if skip then Res.corrupt :: traceF c t skip f rest else [Res.corrupt]
    | (r, _) => [r]

def trace (c : Codec) (t : Tail) (skip : Bool) (s : Bytes) : List Res := traceF c t skip (s.length + 1) s

/-! ## autofile.Group -/

structure Group where
  /-- rotated files `<head>.000 …`, oldest first (index = position); the head has index `files.length` -/
  files : List Bytes := []
  /-- content of the head file on disk; `none` = the path does not exist -/
  head : Option Bytes := some []
  /-- bytes sitting in the bufio.Writer -/
  buf : Bytes := []
deriving Repr, DecidableEq

/-- `AutoFile.Write`: (re)opens with O_CREATE|O_APPEND -/
def Group.appendHead (g : Group) (bs : Bytes) : Group := { g with head := some (g.head.getD [] ++ bs) }

/-- `bufio.Writer.Write` with buffer size `B` (Go 1.x): while the data does not fit — write it directly if the
buffer is empty, else fill the buffer and flush it; the remainder stays buffered. -/
def Group.write (B : Nat) (g : Group) (p : Bytes) : Group :=
  if p.length ≤ B - g.buf.length then { g with buf := g.buf ++ p }
  else if g.buf.isEmpty then g.appendHead p
  else
    let n := B - g.buf.length
    let g1 := { g.appendHead (g.buf ++ p.take n) with buf := [] }
    let q := p.drop n
    if q.length ≤ B then { g1 with buf := q } else g1.appendHead q

/-- `WALEncoder.Encode` on the group (fix 0f01527): a payload longer than `maxMsgSizeBytes` — which the decoder would
refuse — is answered with an error ("msg is too big") and NOTHING is written; otherwise the framed record goes through
`Group.Write` -/
def Group.encodeWrite (B : Nat) (c : Codec) (g : Group) (p : Bytes) : Option Group :=
  if p.length > c.maxMsg then none else some (g.write B (frame c p))

/-- `Group.Flush`: bufio flush, then `Head.Sync()` (which creates the head if it does not exist) -/
def Group.flush (g : Group) : Group := { g.appendHead g.buf with buf := [] }

/-- `Group.RotateFile`: close + rename head to the next index.  `flushFirst` is the generated fact
"RotateFile flushes the bufio writer before the rename" (true on the current tree since fix ed188e7; `false` is the
behaviour before the fix, kept for `Props.C14.C14_rotation_counterexample`).  `none` = the rename
fails (no head on disk) and the code panics. -/
def Group.rotate (flushFirst : Bool) (g : Group) : Option Group :=
  -- `headBuf.Flush()` only: nothing is written (and no head is created) when the buffer is empty
  let g := if flushFirst && !g.buf.isEmpty then { g.appendHead g.buf with buf := [] } else g
  match g.head with
  | none => none
  | some h => some { g with files := g.files ++ [h], head := none }

/-- what the 5-second ticker does (`checkHeadSizeLimit`): `Head.Size()` (creates the head), rotate when
`size ≥ limit ≠ 0` -/
def Group.tick (flushFirst : Bool) (limit : Nat) (g : Group) : Option Group :=
  if limit = 0 then some g
  else
    let g := { g with head := some (g.head.getD []) }
    if (g.head.getD []).length ≥ limit then g.rotate flushFirst else some g

/-- process crash + restart (`OpenGroup` on the same path): the bufio content is lost, the head is created -/
def Group.crash (g : Group) : Group := { g with head := some (g.head.getD []), buf := [] }

/-- bytes a `GroupReader` opened at index `i` will deliver, and how the stream ends -/
def Group.stream (g : Group) (i : Nat) : Bytes := (g.files.drop i).flatten ++ g.head.getD []

def Group.tail (g : Group) : Tail := if g.head.isSome then Tail.eof else Tail.openErr

/-- `Group.NewReader(i)` succeeds -/
def Group.canOpen (g : Group) (i : Nat) : Bool := i < g.files.length || (i == g.files.length && g.head.isSome)

/-! ## SearchForEndHeight -/

inductive Scan
  | found (rest : Bytes)     -- marker found; the reader continues at `rest`
  | atEof (last : Nat)       -- io.EOF reached; `last` = lastHeightFound
  | err (r : Res)
deriving Repr, DecidableEq

/-- the inner `for { dec.Decode() … }` loop of SearchForEndHeight over one reader -/
def scanF (c : Codec) (t : Tail) (height : Nat) (ignore : Bool) : Nat → Bytes → Nat → Scan
  | 0, _, last => Scan.atEof last
  | f + 1, s, last =>
    match decode1 c t s with
    | (Res.eof, _) => Scan.atEof last
    | (Res.corrupt, rest) => if ignore then scanF c t height ignore f rest last else Scan.err Res.corrupt
    | (Res.msg p, rest) =>
      match c.eh p with
      | some h => if h = height then Scan.found rest else scanF c t height ignore f rest h
      | none => scanF c t height ignore f rest last
    | (r, _) => Scan.err r

inductive Search
  | found (index : Nat) (rest : Bytes)
  | notFound
  | err (r : Res)
  | openFailed             -- `group.NewReader(index)` returned an error
deriving Repr, DecidableEq

/-- the outer loop `for index := max; index >= min; index--`; `n` = index + 1, `last` = lastHeightFound -/
def searchFrom (c : Codec) (g : Group) (height : Nat) (ignore : Bool) : Nat → Nat → Search
  | 0, _ => Search.notFound
  | i + 1, last =>
    if g.canOpen i then
      let s := g.stream i
      match scanF c g.tail height ignore (s.length + 1) s last with
      | Scan.found rest => Search.found i rest
      | Scan.atEof last' => if last' > 0 ∧ last' < height then Search.notFound else searchFrom c g height ignore i last'
      | Scan.err r => Search.err r
    else Search.openFailed

/-- `baseWAL.SearchForEndHeight(height, &WALSearchOptions{IgnoreDataCorruptionErrors: ignore})`
(`minIndex = 0`: pruning by total size is not modelled) -/
def search (c : Codec) (g : Group) (height : Nat) (ignore : Bool) : Search :=
  searchFrom c g height ignore (g.files.length + 1) 0

/-! ## checkTotalSizeLimit: the oldest files are deleted; the group's own `minIndex` is only recomputed by `OpenGroup` -/

/-- the removal loop of `checkTotalSizeLimit` (at most `maxFilesToRemove = 4` rounds = the fuel): `total` = bytes of all
files incl. the head, `sizes` = the rotated files that still exist, oldest first.  Result: how many are removed.
An empty `sizes` is `index == gInfo.MaxIndex` (only the head is left): nothing is removed. -/
def pruneLoop (limit : Nat) : Nat → Nat → List Nat → Nat
  | 0, _, _ => 0
  | _ + 1, _, [] => 0
  | f + 1, total, s :: rest => if total < limit then 0 else 1 + pruneLoop limit f (total - s) rest

/-- `checkTotalSizeLimit` with `totalSizeLimit = limit` (0 = no limit) -/
def pruneCount (limit : Nat) (sizes : List Nat) (headSize : Nat) : Nat :=
  if limit = 0 then 0 else pruneLoop limit 4 (sizes.sum + headSize) sizes

/-- `Group.NewReader(i)` when the `gone` oldest files have been deleted -/
def Group.canOpenP (gone : Nat) (g : Group) (i : Nat) : Bool := decide (gone ≤ i) && g.canOpen i

/-- SearchForEndHeight's outer loop `for index := max; index >= min; index--` with the group's `minIndex = lo` (stale
after a deletion: it still names a deleted file, whose `NewReader` fails) -/
def searchFromP (c : Codec) (g : Group) (height : Nat) (ignore : Bool) (gone lo : Nat) : Nat → Nat → Search
  | 0, _ => Search.notFound
  | i + 1, last =>
    if i < lo then Search.notFound
    else if g.canOpenP gone i then
      let s := g.stream i
      match scanF c g.tail height ignore (s.length + 1) s last with
      | Scan.found rest => Search.found i rest
      | Scan.atEof last' =>
        if last' > 0 ∧ last' < height then Search.notFound else searchFromP c g height ignore gone lo i last'
      | Scan.err r => Search.err r
    else Search.openFailed

def searchP (c : Codec) (g : Group) (height : Nat) (ignore : Bool) (gone lo : Nat) : Search :=
  searchFromP c g height ignore gone lo (g.files.length + 1) 0

/-! ## consensus/replay.go: catchupReplay -/

/-- `ConsensusState.OnStart` → `OpenWAL` → `NewWAL` + `baseWAL.OnStart` on the files found on disk: the bufio content of the
crashed process is gone, `OpenAutoFile` creates the head, and an EMPTY head gets `WriteSync(EndHeightMessage{0})`
(`auto0` = the payload of that record; its time stamp is the wall clock, so the model is given a stand-in) -/
def Group.startWal (c : Codec) (auto0 : Bytes) (g : Group) : Group :=
  let g := g.crash
  if (g.head.getD []).isEmpty then { g with head := some (frame c auto0) } else g

/-- how `catchupReplay(csHeight)` ends -/
inductive Outcome
  | done                 -- "Replay: Done"
  | hasMarker            -- "WAL should not contain #ENDHEIGHT csHeight"
  | noMarker             -- "Cannot replay height …. WAL does not contain #ENDHEIGHT for csHeight-1"
  | err (r : Res)        -- a read error of one of the two searches or of the replay loop (OnStart logs it and goes on)
  | openFailed
  | panicCorrupt         -- DataCorruptionError in the replay loop: panic("data has been corrupted … in last height")
deriving DecidableEq, Repr

/-- `catchupReplay(csHeight)`: the sanity search for `csHeight` (must be absent), the search for `csHeight-1`, then every
record after that marker is handed to `readReplayMessage` (EndHeight records are skipped there) until io.EOF.
Result: the payloads replayed, in order, and the outcome. -/
def catchup (c : Codec) (g : Group) (csHeight : Nat) : List Bytes × Outcome :=
  match search c g csHeight true with
  | Search.err r => ([], Outcome.err r)
  | Search.openFailed => ([], Outcome.openFailed)
  | Search.found _ _ => ([], Outcome.hasMarker)
  | Search.notFound =>
    match search c g (csHeight - 1) true with
    | Search.err r => ([], Outcome.err r)
    | Search.openFailed => ([], Outcome.openFailed)
    | Search.notFound => ([], Outcome.noMarker)
    | Search.found _ rest =>
      let r := decodeAll c g.tail rest
      (r.1.filter (fun p => (c.eh p).isNone),
        match r.2 with
        | Res.eof => Outcome.done
        | Res.corrupt => Outcome.panicCorrupt
        | e => Outcome.err e)

end Model.Wal
