/-
Model of MultiSignAccountTx.VerifySign (types/tx_type_mst.go): which validator signatures are counted, once each, towards
"more than 2/3 of the total voting power", over the sign bytes `ser(MultiSignMainInfo)`.  Core Lean only.

Signatures are symbolic (ideal ed25519): `ok j c` is a real signature made by validator j over the main info registered as
content c; it verifies under validator i's key for the transaction's current main info iff j = i and content c EQUALS the
current main info (all of nonce, supported type, minimum power, signer list: what the property says must be bound);
`bad` parses but verifies under nobody's key; `unparse` is rejected by `crypto.SignatureFromBytes`.
-/
import LinkVerif.Go.Int
import LinkVerif.Model.Rlp

namespace Model.MultiSign

inductive Who | val (i : Nat) | foreign (k : Nat)
deriving DecidableEq, Repr, Inhabited

inductive SigKind | ok (j : Nat) (c : Nat) | bad | unparse | empty
deriving DecidableEq, Repr, Inhabited

structure Entry where
  who : Who
  sig : SigKind
deriving DecidableEq, Repr, Inhabited

/-- MultiSignMainInfo -/
structure Content where
  nonce : Nat
  typ : Int
  minPower : Int
  signers : List (List UInt8 × Int)      -- (account address, power)
deriving DecidableEq, Repr, Inhabited

inductive Res | ok | novals | dup | invalidValidator | sigbytes | insufficient
deriving DecidableEq, Repr, Inhabited

/-- does the signature verify under validator i's key for the current main info? -/
def verifies (contents : List (Nat × Content)) (cur : Content) (i : Nat) : SigKind → Bool
  | .ok j c => j == i && ((contents.find? (·.1 == c)).map (·.2) == some cur)
  | _ => false

/-- `TotalVotingPower()`: clipped sum (powers are non-negative) -/
def totalPower (powers : List Int) : Int := powers.foldl (fun a p => Go.clampI64 (a + p)) 0

/-- `validators.TotalVotingPower()*2/3` in int64 -/
def threshold (powers : List Int) : Int := Int.tdiv (Go.wrapI64 (totalPower powers * 2)) 3

/-- the loop of VerifySign: `seen` = validators already counted (vaddrMap), `total` = their power -/
def loop (powers : List Int) (thr : Int) (ver : Nat → SigKind → Bool) : List Entry → List Nat → Int → Res
  | [], _, _ => .insufficient
  | e :: es, seen, total =>
    match e.who with
    | .foreign _ => .invalidValidator
    | .val i =>
      if seen.contains i then .dup
      else match powers[i]? with
        | none => .invalidValidator
        | some pw =>
          if e.sig = .unparse ∨ e.sig = .empty then .sigbytes
          else if !ver i e.sig then loop powers thr ver es seen total
          else if total + pw > thr then .ok
          else loop powers thr ver es (i :: seen) (total + pw)

def verifySign (powers : List Int) (contents : List (Nat × Content)) (cur : Content) (es : List Entry) : Res :=
  if powers.isEmpty then .novals
  else loop powers (threshold powers) (verifies contents cur) es [] 0

/-! ### `GenMultiSignBytes`: libs/ser of the main info (signed integers are written as ASCII hex strings: writeInt) -/

abbrev Bytes := List UInt8

def hexDigits : Nat → Nat → List Char → List Char
  | 0, _, acc => acc
  | f + 1, n, acc =>
    let d := n % 16
    let c := if d < 10 then Char.ofNat (48 + d) else Char.ofNat (87 + d)
    if n / 16 = 0 then c :: acc else hexDigits f (n / 16) (c :: acc)

/-- `strconv.FormatInt(i, 16)` -/
def formatHex (i : Int) : List Char :=
  if i < 0 then '-' :: hexDigits 20 i.natAbs [] else hexDigits 20 i.toNat []

/-- writeInt: the hex text as a string item -/
def encInt (i : Int) : Bytes := Model.Rlp.encStr ((formatHex i).map (fun c => UInt8.ofNat c.toNat))

def encUint (n : Nat) : Bytes := Model.Rlp.encStr (Model.Rlp.beBytesF n n)

def encList (items : List Bytes) : Bytes := Model.Rlp.encHead 0xC0 0xF7 items.flatten.length ++ items.flatten

/-- [AccountNonce, SupportTxType, [MinSignerPower, [[Power, Addr]…]]] -/
def signBytes (c : Content) : Bytes :=
  encList [encUint c.nonce, encInt c.typ,
    encList [encInt c.minPower, encList (c.signers.map fun (k, p) => encList [encInt p, Model.Rlp.encStr k])]]

end Model.MultiSign
