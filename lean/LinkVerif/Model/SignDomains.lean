/-
The signing DOMAINS of the validator key (types/canonical_json.go, types/tx_type_mst.go):

  vote        {"@chain_id":<chain id>,"@type":"vote","block_id":…,"height":…,"round":…,"timestamp":…,"type":…}
  proposal    {"@chain_id":<chain id>,"@type":"proposal","block_parts_header":…,…}
  heartbeat   {"@chain_id":<chain id>,"@type":"heartbeat","height":…,"round":…,"sequence":…,…}
  SignData    caller-chosen bytes; the one in-tree caller (MultiSignAccountTx.Sign) passes GenMultiSignBytes =
              ser.EncodeToBytes(MultiSignMainInfo) = an RLP LIST

`ser.MarshalJSON` writes the struct fields in declaration order, and `ChainID`, `Type` are the first two fields of all three
canonical structs.  Everything after the `"@type"` member is left ARBITRARY here (`tail`), so the statements cover every
value of every other field.  The JSON string-literal encoder is a parameter with one law (a string literal is
self-delimiting: no literal is a proper prefix of another), which is what any correct escaper provides.
Core Lean only.
-/
namespace Model.SignDomains

abbrev Bytes := List UInt8

/-- JSON string-literal encoder (quotes and escaping included) with its one law -/
structure StrEnc where
  str : String → Bytes
  selfDelim : ∀ (a b : String) (x y : Bytes), str a ++ x = str b ++ y → str a = str b ∧ x = y

/-- `{"@chain_id":` -/
def headChain : Bytes := [0x7b, 0x22, 0x40, 0x63, 0x68, 0x61, 0x69, 0x6e, 0x5f, 0x69, 0x64, 0x22, 0x3a]
/-- `,"@type":"` -/
def typeKey : Bytes := [0x2c, 0x22, 0x40, 0x74, 0x79, 0x70, 0x65, 0x22, 0x3a, 0x22]
/-- `vote",` / `proposal",` / `heartbeat",` -/
def tagVote : Bytes := [0x76, 0x6f, 0x74, 0x65, 0x22, 0x2c]
def tagProposal : Bytes := [0x70, 0x72, 0x6f, 0x70, 0x6f, 0x73, 0x61, 0x6c, 0x22, 0x2c]
def tagHeartbeat : Bytes := [0x68, 0x65, 0x61, 0x72, 0x74, 0x62, 0x65, 0x61, 0x74, 0x22, 0x2c]

def canonical (E : StrEnc) (tag : Bytes) (chain : String) (tail : Bytes) : Bytes :=
  headChain ++ (E.str chain ++ (typeKey ++ (tag ++ tail)))

def voteBytes (E : StrEnc) := canonical E tagVote
def proposalBytes (E : StrEnc) := canonical E tagProposal
def heartbeatBytes (E : StrEnc) := canonical E tagHeartbeat

/-- first byte of the RLP encoding of a list whose payload has `n` bytes -/
def rlpListHead (n : Nat) : Nat := if n < 56 then 0xc0 + n else 0xf7 + (Nat.log2 n / 8 + 1)

end Model.SignDomains
