/-
Receipt-accurate block execution for the ledger model (C06 / C07 / C15): what `StateProcessor.Process` does with EVERY
block, also one a Byzantine proposer assembled (app/state_processor.go Process/checkValid, app/state_transition.go
Transit/preTransit/transitInputs/refundGas/setNonce).

Rules taken from the code, per transaction in block order:
 R1 (block invalid, `Process` returns an error — PreRunBlock panics for the proposer, CheckBlock is false for everybody else):
    * account input with a nonce different from the sender's committed nonce (`checkNonce`, `CheckStoreState`);
    * plain / token transfer whose sender cannot pay gas·price (`buyGas`: ErrInsufficientBalanceForGas);
    * account→confidential transaction (`ain`) whose sender holds less than amount + fee (`CheckStoreState`:
      ErrInsufficientFunds is an ERROR there, not a VM error) — `txValid` false and no failure branch;
    * confidential input whose key image is committed or occurs earlier in the block (`CheckStoreState`, `KeyImagesMap`);
 R2 (FAILED RECEIPT, block valid): a plain transfer whose sender pays the gas but holds less than value + fee, or a token
    transfer whose sender pays the gas but holds less of the token than the value: `transitInputs` returns
    ErrInsufficientFunds as a VM error; `refundGas` reverts to the snapshot taken after `buyGas` and refunds ALL gas (no
    transfer gas was consumed yet), `setNonce` still runs: receipt status 0, gas used 0, no fee, no balance moves, the
    sender's nonce becomes nonce + 1;
 R3 otherwise the transaction executes as `Model.Ledger.execTx` says (receipt status 1).
`Model.Ledger.execBlock` / `forceBlock` (the strict validator: every transaction valid where it stands) is the restriction
of this to blocks without R2 transactions: `Props.C06R.execBlock_sub_R`.  Blocks built from the mempool never contain an
R2 transaction (Props.C15).  Core Lean only; nothing of Model.Ledger is changed.
-/
import LinkVerif.Model.Ledger

namespace Model.Ledger

/-- R2: the transaction is not valid where it stands, yet `Process` keeps it with a failed receipt -/
def vmFailsR (s : St) (t : TxRec) : Bool :=
  (t.kind = .xfer || t.kind = .xfertok) && getn s.nonce t.from_ == t.nonce && decide (geti s.bal t.from_ ≥ feeOfGas t.gas)

/-- effect of a failed receipt: only the sender's nonce moves -/
def failTx (s : St) (t : TxRec) : St := { s with nonce := setN s.nonce t.from_ (t.nonce + 1) }

/-- receipt-accurate execution of a list of transactions: `none` iff `Process` returns an error (R1) -/
def execBlockR (s : St) : List Nat → List TxRec → Option St
  | _, [] => some s
  | seen, t :: rest =>
    if txValid s seen t then execBlockR (execTx s t) (if t.kind = .uin then t.spends :: seen else seen) rest
    else if vmFailsR s t then execBlockR (failTx s t) seen rest
    else none

/-- the same with the receipt statuses (true = status 1) in block order -/
def execBlockRS (s : St) : List Nat → List TxRec → Option (St × List Bool)
  | _, [] => some (s, [])
  | seen, t :: rest =>
    if txValid s seen t then
      match execBlockRS (execTx s t) (if t.kind = .uin then t.spends :: seen else seen) rest with
      | some (s', sts) => some (s', true :: sts)
      | none => none
    else if vmFailsR s t then
      match execBlockRS (failTx s t) seen rest with
      | some (s', sts) => some (s', false :: sts)
      | none => none
    else none

/-- `forceblock` with the receipt-accurate execution: the new state, the verdict, the receipt statuses -/
def forceBlockR (s : St) (ids : List Nat) : St × String × List Bool :=
  let recs := ids.filterMap (fun i => s.txs[i]?)
  match execBlockRS s [] recs with
  | none => (s, "propose=panic", [])           -- execution-invalid: even the proposer's own pre-run fails
  | some (s', sts) =>
    if recs.any (fun t => t.broken.isSome) then (s, "validate=false", [])    -- proofs checked on the validator path
    else (finishBlock s s' ids, "ok", sts)

/-- `block` with the receipt-accurate execution (a mempool-built block never holds a failing transaction, so this agrees
with `Model.Ledger.block`: Props.C06R.blockR_eq_block_of_valid) -/
def blockR (s : St) : St × List Bool :=
  let ids := s.pending
  let recs := ids.filterMap (fun i => s.txs[i]?)
  match execBlockRS s [] recs with
  | some (s', sts) => (finishBlock s s' ids, sts)
  | none => (s, [])

end Model.Ledger
