/-
Model for C16 (gossip side): consensus/reactor.go `PeerState` — the updates each consensus message makes to the peer
round state, and the vote picking of one gossip iteration (`PickVoteToSend`), as the code is.

`*cmn.BitArray` fields are POINTERS and the code aliases them (`CatchupCommit = Precommits`, `Precommits = psCatchupCommit`,
a message's array is stored as received), and `SetIndex`/`Update` mutate through the pointer: a pure record would make the
aliased updates invisible, so the model has an explicit heap of cells and the fields hold references.  Core Lean only.
-/
import LinkVerif.Model.PeerBits

namespace Model.PeerState
open Model.PeerInput Model.PeerBits

abbrev Ref := Option Nat

structure PRS where
  height : Nat := 0          -- uint64
  round : Int := -1
  step : Nat := 0            -- uint8
  proposal : Bool := false
  partsTotal : Int := 0      -- ProposalBlockPartsHeader.Total
  partsHash : Nat := 0       -- ProposalBlockPartsHeader.Hash (an identifier)
  parts : Ref := none        -- ProposalBlockParts
  polRound : Int := -1
  pol : Ref := none
  prevotes : Ref := none
  precommits : Ref := none
  lastCommitRound : Int := -1
  lastCommit : Ref := none
  catchupRound : Int := -1
  catchup : Ref := none
deriving Repr, DecidableEq

structure PS where
  prs : PRS := {}
  heap : List BA := []
deriving Repr, DecidableEq

def PS.get (ps : PS) : Ref → Option BA
  | none => none
  | some k => ps.heap[k]?

/-- store a (possibly nil) array value in a fresh cell -/
def PS.store (ps : PS) : Option BA → PS × Ref
  | none => (ps, none)
  | some b => ({ ps with heap := ps.heap ++ [b] }, some ps.heap.length)

def PS.put (ps : PS) (r : Ref) (b : Option BA) : PS :=
  match r, b with
  | some k, some b => { ps with heap := ps.heap.set k b }
  | _, _ => ps

/-- `cmn.NewBitArray(n)` into a fresh cell -/
def PS.alloc (ps : PS) (n : Int) : Except Fault (PS × Ref) := do
  let b ← newBitArray n
  .ok (ps.store b)

def u64 (n : Int) : Nat := (Go.wrapU64 n).toNat

def prevoteT : Nat := 1
def precommitT : Nat := 2

/-- `CompareHRS` -/
def compareHRS (h1 : Nat) (r1 : Int) (s1 : Nat) (h2 : Nat) (r2 : Int) (s2 : Nat) : Int :=
  if h1 < h2 then -1 else if h1 > h2 then 1
  else if r1 < r2 then -1 else if r1 > r2 then 1
  else if s1 < s2 then -1 else if s1 > s2 then 1 else 0

/-- `ApplyNewRoundStepMessage` (note: on a height change `Precommits` is cleared BEFORE it is "shifted" into `LastCommit`,
so `LastCommit` is always nil afterwards: the code as it is) -/
def applyNewRoundStep (ps : PS) (h : Nat) (r : Int) (s : Nat) (lcr : Int) : PS :=
  let p := ps.prs
  if compareHRS h r s p.height p.round p.step ≤ 0 then ps
  else
    let psHeight := p.height
    let psRound := p.round
    let psCCR := p.catchupRound
    let psCC := p.catchup
    let p := { p with height := h, round := r, step := s }
    let p := if psHeight ≠ h ∨ psRound ≠ r then
        { p with proposal := false, partsTotal := 0, partsHash := 0, parts := none, polRound := -1, pol := none,
                 prevotes := none, precommits := none }
      else p
    let p := if psHeight = h ∧ psRound ≠ r ∧ r = psCCR then { p with precommits := psCC } else p
    let p := if psHeight ≠ h then
        let p := if u64 (psHeight + 1) = h ∧ psRound = lcr then { p with lastCommitRound := lcr, lastCommit := p.precommits }
                 else { p with lastCommitRound := lcr, lastCommit := none }
        { p with catchupRound := -1, catchup := none }
      else p
    { ps with prs := p }

/-- `ApplyCommitStepMessage`: header and bit array are stored AS RECEIVED -/
def applyCommitStep (ps : PS) (h : Nat) (total : Int) (hash : Nat) (b : Option BA) : PS :=
  if ps.prs.height ≠ h then ps
  else
    let (ps, r) := ps.store b
    { ps with prs := { ps.prs with partsTotal := total, partsHash := hash, parts := r } }

/-- `ApplyProposalPOLMessage`: the bit array is stored AS RECEIVED -/
def applyProposalPOL (ps : PS) (h : Nat) (polRound : Int) (b : Option BA) : PS :=
  if ps.prs.height ≠ h then ps
  else if ps.prs.polRound ≠ polRound then ps
  else
    let (ps, r) := ps.store b
    { ps with prs := { ps.prs with pol := r } }

/-- `SetHasProposal` -/
def setHasProposal (ps : PS) (h : Nat) (r : Int) (total : Int) (hash : Nat) (polRound : Int) : Except Fault PS :=
  if ps.prs.height ≠ h ∨ ps.prs.round ≠ r then .ok ps
  else if ps.prs.proposal then .ok ps
  else do
    let (ps, ref) ← ps.alloc total
    .ok { ps with prs := { ps.prs with proposal := true, partsTotal := total, partsHash := hash, parts := ref,
                                       polRound := polRound, pol := none } }

/-- `InitProposalBlockParts` -/
def initProposalBlockParts (ps : PS) (total : Int) (hash : Nat) : Except Fault PS :=
  if ps.prs.parts.isSome then .ok ps
  else do
    let (ps, ref) ← ps.alloc total
    .ok { ps with prs := { ps.prs with partsTotal := total, partsHash := hash, parts := ref } }

/-- `r.SetIndex(i, true)` through a reference -/
def setBit (ps : PS) (r : Ref) (i : Int) : Except Fault PS := do
  let (_, b') ← setIndex (ps.get r) i true
  .ok (ps.put r b')

/-- `SetHasProposalBlockPart` -/
def setHasProposalBlockPart (ps : PS) (h : Nat) (r : Int) (i : Int) : Except Fault PS :=
  if ps.prs.height ≠ h ∨ ps.prs.round ≠ r then .ok ps else setBit ps ps.prs.parts i

/-- `getVoteBitArray` -/
def getVoteBitArray (p : PRS) (h : Nat) (r : Int) (t : Nat) : Ref :=
  if t ≠ prevoteT ∧ t ≠ precommitT then none
  else if p.height = h then
    if p.round = r then (if t = prevoteT then p.prevotes else p.precommits)
    else if p.catchupRound = r then (if t = prevoteT then none else p.catchup)
    else if p.polRound = r then (if t = prevoteT then p.pol else none)
    else none
  else if p.height = u64 (h + 1) then
    if p.lastCommitRound = r then (if t = prevoteT then none else p.lastCommit) else none
  else none

/-- `ensureCatchupCommitRound` -/
def ensureCatchupCommitRound (ps : PS) (h : Nat) (r : Int) (n : Int) : Except Fault PS :=
  if ps.prs.height ≠ h then .ok ps
  else if ps.prs.catchupRound = r then .ok ps
  else if r = ps.prs.round then .ok { ps with prs := { ps.prs with catchupRound := r, catchup := ps.prs.precommits } }
  else do
    let (ps, ref) ← ps.alloc n
    .ok { ps with prs := { ps.prs with catchupRound := r, catchup := ref } }

/-- `ensureVoteBitArrays` -/
def ensureVoteBitArrays (ps : PS) (h : Nat) (n : Int) : Except Fault PS :=
  if ps.prs.height = h then do
    let ps ← if ps.prs.prevotes.isNone then do
        let (ps, ref) ← ps.alloc n; pure { ps with prs := { ps.prs with prevotes := ref } } else pure ps
    let ps ← if ps.prs.precommits.isNone then do
        let (ps, ref) ← ps.alloc n; pure { ps with prs := { ps.prs with precommits := ref } } else pure ps
    let ps ← if ps.prs.catchup.isNone then do
        let (ps, ref) ← ps.alloc n; pure { ps with prs := { ps.prs with catchup := ref } } else pure ps
    if ps.prs.pol.isNone then do
        let (ps, ref) ← ps.alloc n; pure { ps with prs := { ps.prs with pol := ref } } else pure ps
  else if ps.prs.height = u64 (h + 1) then
    if ps.prs.lastCommit.isNone then do
      let (ps, ref) ← ps.alloc n; pure { ps with prs := { ps.prs with lastCommit := ref } } else pure ps
  else .ok ps

/-- `setHasVote` -/
def setHasVote (ps : PS) (h : Nat) (r : Int) (t : Nat) (i : Int) : Except Fault PS :=
  match getVoteBitArray ps.prs h r t with
  | none => .ok ps
  | some k => setBit ps (some k) i

/-- `ApplyHasVoteMessage` -/
def applyHasVote (ps : PS) (h : Nat) (r : Int) (t : Nat) (i : Int) : Except Fault PS :=
  if ps.prs.height ≠ h then .ok ps else setHasVote ps h r t i

/-- `ApplyVoteSetBitsMessage` -/
def applyVoteSetBits (ps : PS) (h : Nat) (r : Int) (t : Nat) (msgVotes ourVotes : Option BA) : Except Fault PS :=
  match getVoteBitArray ps.prs h r t with
  | none => .ok ps
  | some k =>
    match ourVotes with
    | none => .ok (ps.put (some k) (update (ps.get (some k)) msgVotes))
    | some _ => do
      let other ← sub (ps.get (some k)) ourVotes
      let has ← or other msgVotes
      .ok (ps.put (some k) (update (ps.get (some k)) has))

/-- what the reactor does for a VoteMessage before queueing it: two `EnsureVoteBitArrays` with the NODE's sizes, then `SetHasVote` -/
def onVote (ps : PS) (nodeHeight : Nat) (valSize lastCommitSize : Int) (h : Nat) (r : Int) (t : Nat) (i : Int) : Except Fault PS := do
  let ps ← ensureVoteBitArrays ps nodeHeight valSize
  let ps ← ensureVoteBitArrays ps (u64 ((nodeHeight : Int) - 1)) lastCommitSize
  setHasVote ps h r t i

/-- a `types.VoteSetReader` as `PickVoteToSend` sees it -/
structure Votes where
  height : Nat
  round : Int
  type : Nat
  size : Int
  isCommit : Bool
  bits : Option BA
deriving Repr, DecidableEq

inductive Picked where
  | nothing                 -- (nil, false)
  | vote (index : Int)      -- votes.GetByIndex(index), true
deriving Repr, DecidableEq

/-- `PickVoteToSend` with the random choice made explicit: `choice` is what `PickRandom` returned (`none` = false).
Result: the state afterwards, what is sent, and whether `choice` is a possible outcome of `PickRandom` at all. -/
def pickVoteToSend (ps : PS) (v : Votes) (choice : Option Int) : Except Fault (PS × Picked × Bool) :=
  if v.size = 0 then .ok (ps, .nothing, choice.isNone)
  else do
    let ps ← if v.isCommit then ensureCatchupCommitRound ps v.height v.round v.size else pure ps
    let ps ← ensureVoteBitArrays ps v.height v.size
    match getVoteBitArray ps.prs v.height v.round v.type with
    | none => .ok (ps, .nothing, choice.isNone)
    | some k => do
      let d ← sub v.bits (ps.get (some k))
      let cands ← pick d
      match choice with
      | none => .ok (ps, .nothing, cands.isEmpty)
      | some i =>
        if !cands.contains i then .ok (ps, .nothing, false)
        else do
          let ps ← setHasVote ps v.height v.round v.type i
          -- votes.GetByIndex(index): `voteSet.votes[valIndex]` / `commit.Precommits[index]`, slices of length Size()
          if i < 0 ∨ i ≥ v.size then .error (.panic "types.GetByIndex") else .ok (ps, .vote i, true)

end Model.PeerState
