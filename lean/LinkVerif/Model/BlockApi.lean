/-
Model of the API around block identity that the widened C12 streams drive (core Lean only):
 * `PartSetReader.Read` (types/part_set.go) exactly as written, including its quirks,
 * `Commit` accessors and `Commit.ValidateBasic` (types/block.go) over symbolic votes,
 * the reflection sweep's expectation for every field of `types.Header` (from the regenerated field list and the
   vetted classification of `Model.BlockId`),
 * `TxProof.Validate` (types/tx.go).
-/
import LinkVerif.Model.Merkle
import LinkVerif.Model.PartSet
import LinkVerif.Model.BlockId
import LinkVerif.Gen.BlockId

namespace Model.BlockApi
open Model.Merkle Model.PartSet Model.BlockId

/-! ## PartSetReader -/

/-- reader position: index of the current part and offset inside it (`psr.i`, `psr.reader`) -/
structure RState where
  i : Nat := 0
  off : Nat := 0
deriving Repr, DecidableEq

/-- one call `Read(p)` with `len(p) = n`: new position, bytes delivered, `err == io.EOF`.
Mirrors the code: if the current part has at least `n` unread bytes, `bytes.Reader.Read` (which answers
`(0, EOF)` on an exhausted part EVEN FOR `n = 0`); otherwise read the rest of the part and recurse for the
remainder; on an exhausted part move to the next one (`psr.i++` persists) or answer EOF. -/
def readCall (parts : List Bytes) : Nat → RState → Nat → RState × Bytes × Bool
  | 0, s, _ => (s, [], true)
  | f + 1, s, n =>
    let cur := parts.getD s.i []
    let rl := cur.length - s.off
    if rl ≥ n then
      if s.off ≥ cur.length then (s, [], true)
      else ({ s with off := s.off + n }, (cur.drop s.off).take n, false)
    else if rl > 0 then
      match readCall parts f s rl with
      | (s1, d1, true) => (s1, d1, true)
      | (s1, d1, false) =>
        match readCall parts f s1 (n - rl) with
        | (s2, d2, e2) => (s2, d1 ++ d2, e2)
    else
      if s.i + 1 ≥ parts.length then ({ i := s.i + 1, off := 0 }, [], true)
      else readCall parts f { i := s.i + 1, off := 0 } n

def readFuel (parts : List Bytes) : Nat := 2 * parts.length + 4

/-- a sequence of `Read` calls with the given buffer sizes: per call (n, eof), and all bytes delivered -/
def readSeq (parts : List Bytes) : RState → List Nat → List (Nat × Bool) × Bytes
  | _, [] => ([], [])
  | s, n :: rest =>
    match readCall parts (readFuel parts) s n with
    | (s', d, e) =>
      match readSeq parts s' rest with
      | (rs, ds) => ((d.length, e) :: rs, d ++ ds)

/-! ## Commit over symbolic votes -/

/-- a precommit slot as the harness names it: `v<k>` precommit (height 4, round 0), `p<k>` the same as a
prevote, `h<k>` height 5, `r<k>` round 1; `none` = absent -/
structure SVote where
  isPrecommit : Bool
  height : Nat
  round : Nat
deriving Repr, DecidableEq

def svoteOf (id : String) : Option SVote :=
  if id == "nil" then none
  else if id.startsWith "p" then some ⟨false, 4, 0⟩
  else if id.startsWith "h" then some ⟨true, 5, 0⟩
  else if id.startsWith "r" then some ⟨true, 4, 1⟩
  else some ⟨true, 4, 0⟩

/-- `FirstPrecommit`: `none` for an empty slice, otherwise the first present vote or the empty vote (height 0) -/
def firstPrecommit (vs : List (Option SVote)) : Option (Option Nat × SVote) :=
  if vs.isEmpty then none
  else match vs.findIdx? Option.isSome with
    | some i => some (some i, (vs.getD i none).getD ⟨true, 0, 0⟩)
    | none => some (none, ⟨true, 0, 0⟩)

def commitHeight (vs : List (Option SVote)) : Nat := match firstPrecommit vs with | some (_, v) => v.height | none => 0
def commitRound (vs : List (Option SVote)) : Nat := match firstPrecommit vs with | some (_, v) => v.round | none => 0

/-- `Commit.ValidateBasic`, first failing check -/
def commitValid (blockIDZero : Bool) (vs : List (Option SVote)) : String :=
  if blockIDZero then "nilblock"
  else if vs.isEmpty then "noprecommits"
  else
    let h := commitHeight vs
    let r := commitRound vs
    let rec go : List (Option SVote) → String
      | [] => "ok"
      | none :: rest => go rest
      | some v :: rest =>
        if !v.isPrecommit then "type" else if v.height ≠ h then "height" else if v.round ≠ r then "round" else go rest
    go vs

/-! ## the reflection sweep over `types.Header` -/

/-- the leaves the sweep visits, in declaration order, as (top-level field, path below it); the only
struct-typed field is `LastBlockID` -/
def headerLeaves : List (String × List String) :=
  Gen.BlockId.headerFields.flatMap fun f =>
    if f.1 == "LastBlockID" then
      Gen.BlockId.blockIDFields.flatMap fun b =>
        if b.1 == "PartsHeader" then Gen.BlockId.partSetHeaderFields.map (fun p => (f.1, [b.1, p.1]))
        else [(f.1, [b.1])]
    else [(f.1, [])]

def leafName (l : String × List String) : String := ".".intercalate (l.1 :: l.2)

/-- expected effect of changing a leaf of the top-level field: (block hash changes, part-set header changes) -/
def leafEffect (top : String) : String :=
  if hashedFields.any (·.1 == top) then "11"
  else if partsOnlyFields.contains top then "01"
  else if localOnlyFields.contains top then "00"
  else "??"

/-! ## TxProof.Validate -/

def txProofValid (dataHash rootHash : Bytes) (index total : Int) (leafHash : Bytes) (aunts : List Bytes) : String :=
  if dataHash ≠ rootHash then "roothash"
  else if index < 0 then "negidx"
  else if total ≤ 0 then "total"
  else if verify h2K index total leafHash aunts rootHash then "ok" else "inconsistent"

end Model.BlockApi
