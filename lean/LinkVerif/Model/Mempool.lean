/-
Mempool model for C15 (mempool/mempool.go, mempool/tx_list.go) on top of the ledger model of C06/C07.

`Pool` = the committed ledger `c` (Model.Ledger.St: balances, nonces, spent key images, wallets, history), the
speculative account state `acc` (app.checkTxState: what `CheckTx(tx, StateCheck)` reads and DEBITS), the pool's key-image
cache `imgs`, the three containers `good` (goodTxs), `utxo` (utxoTxs: pure confidential-input txs), `fut` (futureTxs, all
senders; at most one entry per (sender, nonce)), the dedup `cache`, and the size configuration.

The model mirrors the code as it is:
 * `checkAcc`: nonce test, then funds test, for an account-input confidential tx (`ain`) the fee test of
   `UTXOTransaction.checkState`, and only then DEBIT + nonce bump (since repo commit 6dc6087 the account input is debited
   after every check has passed; before it a rejected fee-too-low `ain` left the speculative state advanced);
 * admission `addTx`: dedup cache, basic check, `full` gate (future full AND good full), state check, then good / future
   by the size cap (a transaction that passed the state check while goodTxs is full is parked in the future queue although
   the speculative state has already been advanced); nonce-too-high goes to the future queue; pure confidential-input
   txs go to `utxo` behind its own size gate; `addGood` promotes the sender's queue;
 * `promote`: Forward (drop queued nonces below the speculative nonce), Ready (the consecutive run from the speculative
   nonce, at most Size - len(good) entries), state check of each (a failure drops the entry), append to good;
 * `reap`: prefix(good) ++ prefix(utxo) with the caps of `Reap`/`collectTxs` (utxo list first against the budget);
 * `update`: filter committed, speculative state := committed state, image cache := [], recheck good (nonce-too-high
   moves to the future queue, other failures drop), recheck utxo, promote every sender.
SpecGoodTxs (multi-sign account txs), the blacklist, the time based evictions (GoodTxDropTime, Lifetime, 30 s delayed
cache deletion, RemoveFutureTx) are outside the model; the harness keeps them from firing.  Core Lean only.
-/
import LinkVerif.Model.Ledger

namespace Model.Mempool
open Model.Ledger

inductive Cls where
  | ok | nonceLow | nonceHigh | funds | feeLow | doubleSpend | dup | full | oversized | negative
deriving Repr, DecidableEq, Inhabited

structure Acc where
  bal : List Int
  tok : List Int
  nonce : List Nat
deriving Repr, Inhabited

structure Cfg where
  size : Nat := 3000
  future : Nat := 100000
  utxoSize : Nat := 1000
  maxReap : Nat := 10000
  accts : Nat := 3
deriving Repr, Inhabited

structure E where
  id : Nat
  t : TxRec
deriving Repr, Inhabited

structure Pool where
  c : St
  acc : Acc
  imgs : List Nat := []
  good : List E := []
  utxo : List E := []
  fut : List E := []
  cache : List Nat := []
  cfg : Cfg := {}
deriving Repr, Inhabited

def accOf (s : St) : Acc := { bal := s.bal, tok := s.tok, nonce := s.nonce }

def init (cfg : Cfg) (wallets : Nat) (bal tbal : Int) : Pool :=
  let c := Ledger.init cfg.accts wallets bal tbal
  { c := c, acc := accOf c, cfg := cfg }

/-! ### the state check -/

/-- `tx.Fee < neededFee` for an account-input confidential transaction -/
def feeLow (t : TxRec) : Bool := decide (t.amount > 0) && decide (t.gas < calGas t.amount)

def canPay (a : Acc) (t : TxRec) : Bool :=
  match t.kind with
  | .xfertok => decide (geti a.tok t.from_ ≥ t.amount) && decide (geti a.bal t.from_ ≥ feeOfGas t.gas)
  | _ => decide (geti a.bal t.from_ ≥ t.amount + feeOfGas t.gas)

def debit (a : Acc) (t : TxRec) : Acc :=
  match t.kind with
  | .xfertok => { bal := addAt a.bal t.from_ (-(feeOfGas t.gas)), tok := addAt a.tok t.from_ (-t.amount),
                  nonce := setN a.nonce t.from_ (t.nonce + 1) }
  | _ => { bal := addAt a.bal t.from_ (-(t.amount + feeOfGas t.gas)), tok := a.tok, nonce := setN a.nonce t.from_ (t.nonce + 1) }

/-- `CheckTx(tx, StateCheck)` for a transaction with an account input (Transaction / TokenTransaction CheckState,
UTXOTransaction.checkState with an AccountInput) -/
def checkAcc (a : Acc) (t : TxRec) : Cls × Acc :=
  let n := getn a.nonce t.from_
  if n > t.nonce then (.nonceLow, a)
  else if n < t.nonce then (.nonceHigh, a)
  else if !canPay a t then (.funds, a)
  else if t.kind = .ain && feeLow t then (.feeLow, a)             -- rejected: the state is untouched (fix 6dc6087)
  else (.ok, debit a t)

/-- the state check of a pure confidential-input transaction: committed images, then the pool's image cache -/
def checkImg (spent imgs : List Nat) (t : TxRec) : Cls :=
  if spent.contains t.spends then .doubleSpend
  else if imgs.contains t.spends then .doubleSpend
  else .ok

/-- `CheckTx(tx, BasicCheck)` as far as the harness drives it -/
def basic (t : TxRec) : Cls :=
  match t.broken with
  | some _ => .oversized
  | none =>
    if t.amount < 0 ∨ t.gas < 0 then .negative
    else match t.aout with
      | some (_, v) => if v < 0 then .negative else .ok
      | none => .ok

/-! ### future queue and promotion -/

def sameSlot (e : E) (a n : Nat) : Bool := e.t.from_ == a && e.t.nonce == n

/-- `addFutureTx` / `addTofutureTxs` -/
def addFuture (p : Pool) (e : E) : Cls × Pool :=
  if p.fut.length ≥ p.cfg.future then (.full, p)
  else if p.fut.any (fun x => sameSlot x e.t.from_ e.t.nonce) then (.dup, p)
  else (.ok, { p with fut := p.fut ++ [e] })

/-- `txSortedMap.Ready(start, start+cnt)`: the consecutive run of queued nonces of sender `a` from `start` -/
def readyRun (fut : List E) (a : Nat) : Nat → Nat → List E
  | _, 0 => []
  | start, cnt + 1 =>
    match fut.find? (fun x => sameSlot x a start) with
    | none => []
    | some e => e :: readyRun fut a (start + 1) cnt

def dropIds (xs : List Nat) (es : List E) : List Nat := xs.filter (fun i => !(es.map (·.id)).contains i)

/-- the loop over `promoting`: state check, append to good or forget -/
def promoteLoop (acc : Acc) (good : List E) (cache : List Nat) : List E → Acc × List E × List Nat
  | [] => (acc, good, cache)
  | e :: rest =>
    if (checkAcc acc e.t).1 = .ok then promoteLoop (checkAcc acc e.t).2 (good ++ [e]) cache rest
    else promoteLoop (checkAcc acc e.t).2 good (cache.filter (· != e.id)) rest

/-- `promoteExecutables([a])` -/
def promote (p : Pool) (a : Nat) : Pool :=
  let n := getn p.acc.nonce a
  let old := p.fut.filter (fun e => e.t.from_ == a && decide (e.t.nonce < n))
  let fut1 := p.fut.filter (fun e => !(e.t.from_ == a && decide (e.t.nonce < n)))
  let cache1 := dropIds p.cache old
  let need := p.cfg.size - p.good.length
  if need = 0 then { p with fut := fut1, cache := cache1 }
  else
    let ready := readyRun fut1 a n need
    let fut2 := fut1.filter (fun e => !(ready.map (·.id)).contains e.id)
    let (acc', good', cache') := promoteLoop p.acc p.good cache1 ready
    { p with acc := acc', good := good', fut := fut2, cache := cache' }

def promoteAll (p : Pool) : Nat → Pool
  | 0 => p
  | k + 1 => promote (promoteAll p k) k

/-- senders are promoted in ascending order: `promoteAll p n` handles 0, 1, …, n-1 -/
def promoteEvery (p : Pool) : Pool := promoteAll p p.cfg.accts

/-! ### admission -/

def uncache (p : Pool) (id : Nat) : Pool := { p with cache := p.cache.filter (· != id) }

/-- `addGoodTx(tx, true)` -/
def addGood (p : Pool) (e : E) : Pool := promote { p with good := p.good ++ [e] } e.t.from_

/-- `addLocalTx` / `addUTXOTx` with an account input, on the outcome of the state check -/
def addAccount (p : Pool) (e : E) : Cls × Pool :=
  let p' : Pool := { p with acc := (checkAcc p.acc e.t).2 }
  if (checkAcc p.acc e.t).1 = .ok then
    if p'.good.length < p'.cfg.size then (.ok, addGood p' e) else addFuture p' e
  else if (checkAcc p.acc e.t).1 = .nonceHigh then addFuture p' e
  else ((checkAcc p.acc e.t).1, p')

/-- `addUTXOTx` for a pure confidential-input transaction -/
def addPure (p : Pool) (e : E) : Cls × Pool :=
  if p.utxo.length ≥ p.cfg.size then (.full, p)
  else if checkImg p.c.spentImgs p.imgs e.t = .ok then (.ok, { p with imgs := p.imgs ++ [e.t.spends], utxo := p.utxo ++ [e] })
  else (checkImg p.c.spentImgs p.imgs e.t, p)

/-- `Mempool.AddTx` -/
def addTx (p : Pool) (e : E) : Cls × Pool :=
  if p.cache.contains e.id then (.dup, p)
  else
    if basic e.t = .ok then
      if p.fut.length ≥ p.cfg.future ∧ p.good.length ≥ p.cfg.size then (.full, p)
      else
        let p1 : Pool := { p with cache := p.cache ++ [e.id] }
        let r := if e.t.kind = .uin then addPure p1 e else addAccount p1 e
        if r.1 = .ok then r else (r.1, uncache r.2 e.id)
    else (basic e.t, p)

/-! ### reap -/

/-- `collectTxs(list, max)`: at most `max` entries, stopping after the entry that brings the number of confidential
(TxUTXO: ain / uin) entries to `utxoSize` -/
def collect (utxoSize : Nat) : List E → Nat → Nat → List E
  | [], _, _ => []
  | _, 0, _ => []
  | e :: rest, max + 1, cnt =>
    let cnt' := if e.t.kind = .ain ∨ e.t.kind = .uin then cnt + 1 else cnt
    if cnt' ≥ utxoSize then [e] else e :: collect utxoSize rest max cnt'

/-- `Mempool.Reap(max)` -/
def reap (p : Pool) (max : Nat) : List E :=
  if max = 0 then []
  else
    let m := if max > p.cfg.maxReap then p.cfg.maxReap else max
    let us := collect p.cfg.utxoSize p.utxo p.cfg.utxoSize 0
    let gs := collect p.cfg.utxoSize p.good (m - us.length) 0
    gs ++ us

/-! ### update after a commit -/

/-- `recheckTxs`: state check of every good entry in order against the fresh speculative state -/
def recheckGood (p : Pool) : List E → Pool
  | [] => p
  | e :: rest =>
    if (checkAcc p.acc e.t).1 = .ok then recheckGood { p with acc := (checkAcc p.acc e.t).2, good := p.good ++ [e] } rest
    else if (checkAcc p.acc e.t).1 = .nonceHigh then
      if (addFuture { p with acc := (checkAcc p.acc e.t).2 } e).1 = .ok then recheckGood (addFuture { p with acc := (checkAcc p.acc e.t).2 } e).2 rest
      else recheckGood (uncache (addFuture { p with acc := (checkAcc p.acc e.t).2 } e).2 e.id) rest
    else recheckGood (uncache { p with acc := (checkAcc p.acc e.t).2 } e.id) rest

/-- `recheckUtxoTxs` -/
def recheckUtxo (p : Pool) : List E → Pool
  | [] => p
  | e :: rest =>
    if checkImg p.c.spentImgs p.imgs e.t = .ok then recheckUtxo { p with imgs := p.imgs ++ [e.t.spends], utxo := p.utxo ++ [e] } rest
    else recheckUtxo (uncache p e.id) rest

/-- `CommitBlock` tail + `Mempool.Update`: `c'` is the new committed ledger, `ids` the block's transactions -/
def update (p : Pool) (c' : St) (ids : List Nat) : Pool :=
  let good1 := p.good.filter (fun e => !ids.contains e.id)
  let utxo1 := p.utxo.filter (fun e => !ids.contains e.id)
  let p0 : Pool := { p with c := c', acc := accOf c', imgs := [], good := [], utxo := [] }
  let p1 := recheckGood p0 good1
  let p2 := recheckUtxo p1 utxo1
  promoteEvery p2

def finish (c c' : St) (ids : List Nat) : St :=
  { c' with height := c.height + 1, blocks := c.blocks ++ [ids] }

/-- Block execution as the application does it for ANY block (also one a Byzantine proposer assembled): the ledger model's
`execBlock` (every transaction valid where it stands), extended by the one case in which the real `Process` keeps a
transaction that cannot pay: an account transfer whose sender has the exact nonce and covers the gas fee but not the value
(token value) fails inside the VM step (`transitInputs`: receipt status failed, all gas refunded) — only the nonce moves.
A block offered by the mempool never takes that branch (Props.C15 `reaped_block_executes` is about `execBlock`). -/
def vmFails (s : St) (t : TxRec) : Bool :=
  (t.kind = .xfer || t.kind = .xfertok) && getn s.nonce t.from_ == t.nonce && decide (geti s.bal t.from_ ≥ feeOfGas t.gas)

def execX (s : St) : List Nat → List TxRec → Option St
  | _, [] => some s
  | seen, t :: rest =>
    if txValid s seen t then execX (execTx s t) (if t.kind = .uin then t.spends :: seen else seen) rest
    else if vmFails s t then execX { s with nonce := setN s.nonce t.from_ (t.nonce + 1) } seen rest
    else none

/-- execute `es` as a block on the committed ledger (proposer path `PreRunBlock`, then `CheckBlock` + `CommitBlock`):
`none` = the block does not execute (PreRunBlock panics / no correct node commits it) -/
def commitEntries (p : Pool) (es : List E) : Option Pool :=
  match execX p.c [] (es.map (·.t)) with
  | none => none
  | some c' => some (update p (finish p.c c' (es.map (·.id))) (es.map (·.id)))

/-- a forced block: `Process.checkValid` repeats the basic check and (`CheckStoreState`) the fee test, so a block holding
an oversized transaction or a fee-too-low account-input confidential transaction fails -/
def forceEntries (p : Pool) (es : List E) : Option Pool :=
  if es.any (fun e => e.t.broken.isSome || (e.t.kind == .ain && feeLow e.t)) then none else commitEntries p es

/-! ### histories -/

inductive Op where
  | submit (id : Nat)
  | reap (max : Nat)
  | commit (max : Nat)
  | force (ids : List Nat)
deriving Repr

def entries (reg : List TxRec) (ids : List Nat) : List E :=
  ids.filterMap (fun i => (reg[i]?).map (fun t => { id := i, t := t }))

def step (reg : List TxRec) (p : Pool) : Op → Pool
  | .submit id =>
    match reg[id]? with
    | some t => (addTx p { id := id, t := t }).2
    | none => p
  | .reap _ => p
  | .commit max => (commitEntries p (reap p max)).getD p
  | .force ids => (forceEntries p (entries reg ids)).getD p

def run (reg : List TxRec) (p : Pool) (ops : List Op) : Pool := ops.foldl (step reg) p


/-! ### the dedup cache as the validator path sees it (AddTx is not atomic for the cache)

`AddTx` puts the transaction into the cache with `BasicChecked = false` BEFORE the basic check runs (outside `proxyMtx`), sets
the flag after the check passed and deletes the entry when it failed.  `GetTxFromCache` = `CheckAndGet` returns only entries
whose flag is set; `verifyTxsOnProcess` (validator path of `CheckBlock`) skips the basic check of a confidential transaction
it finds there.  `PoolC` adds the set of in-flight ids (put, basic check not finished) to the pool; `putC` / `finishC` are
the two halves of `AddTx`, every other operation runs between them unchanged. -/

structure PoolC where
  p : Pool
  inflight : List Nat := []      -- ids in the cache whose BasicChecked flag is still false
deriving Inhabited

/-- first half of `AddTx`: `cache.Put(&mempoolCachedTx{tx, BasicChecked: false})` (a duplicate stops here) -/
def putC (pc : PoolC) (e : E) : PoolC :=
  if pc.p.cache.contains e.id then pc
  else { p := { pc.p with cache := pc.p.cache ++ [e.id] }, inflight := pc.inflight ++ [e.id] }

/-- second half of `AddTx` for an in-flight id: basic check, flag or delete, then admission as `addTx` does it -/
def finishC (pc : PoolC) (e : E) : Cls × PoolC :=
  if pc.inflight.contains e.id then
    let r := addTx { pc.p with cache := pc.p.cache.filter (· != e.id) } e
    (r.1, { p := r.2, inflight := pc.inflight.filter (· != e.id) })
  else (.dup, pc)

/-- `Mempool.GetTxFromCache` = `txCache.CheckAndGet`: present AND basic-checked -/
def getTxFromCache (pc : PoolC) (id : Nat) : Bool := pc.p.cache.contains id && !pc.inflight.contains id

/-- `verifyTxsOnProcess`: a confidential transaction found in the cache skips the basic check, every other confidential
transaction is basic-checked here (account transactions are basic-checked inside `Process.checkValid`: `hardInvalid`) -/
def precheck (hit : Nat → Bool) (es : List E) : Bool :=
  es.all (fun e => decide (e.t.kind ≠ .uin) || hit e.id || (basic e.t == .ok))

/-- what makes `Process` itself refuse the block whatever the caches hold -/
def hardInvalid (e : E) : Bool := (decide (e.t.kind ≠ .uin) && e.t.broken.isSome) || (e.t.kind == .ain && feeLow e.t)

/-- the block executes (proposer path `PreRunBlock`, and the `Process` step of `CheckBlock`) -/
def execOk (c : St) (es : List E) : Bool := !es.any hardInvalid && (execX c [] (es.map (·.t))).isSome

/-- validator-path verdict of a block on a node whose pool (and cache) is `pc` -/
def verdict (pc : PoolC) (es : List E) : Bool := execOk pc.p.c es && precheck (getTxFromCache pc) es

/-- the verdict of a node whose cache holds nothing (it never saw a submission) on the same committed ledger -/
def verdictCold (c : St) (es : List E) : Bool := execOk c es && precheck (fun _ => false) es

inductive OpC where
  | seq (op : Op)            -- any atomic operation (a whole AddTx, a reap, a commit)
  | put (id : Nat)           -- first half of an AddTx
  | finish (id : Nat)        -- second half of that AddTx

def stepC (reg : List TxRec) (pc : PoolC) : OpC → PoolC
  | .seq op => { pc with p := step reg pc.p op }
  | .put id => match reg[id]? with | some t => putC pc { id := id, t := t } | none => pc
  | .finish id => match reg[id]? with | some t => (finishC pc { id := id, t := t }).2 | none => pc

def runC (reg : List TxRec) (pc : PoolC) (ops : List OpC) : PoolC := ops.foldl (stepC reg) pc


/-! ### time- and size-based removal (config.RemoveFutureTx, AccountQueue, Lifetime, GoodTxDropTime)

These run at the END of a `promoteExecutables` of a sender (`Cap`), on the 10 s eviction tick, and at the START of `Update`
(`filterTxs`); they only remove entries, so they are modelled as separate steps applied by the driver around the core
functions (the queues of different senders are independent, so capping after the whole promotion equals capping inside it). -/

/-- `txSortedMap.Cap(k)` for sender `a`: keep the `k` lowest nonces of its queue, forget the rest -/
def capAccount (p : Pool) (a k : Nat) : Pool :=
  let keep := fun (e : E) => !(e.t.from_ == a) ||
    decide ((p.fut.filter (fun x => x.t.from_ == a && decide (x.t.nonce < e.t.nonce))).length < k)
  { p with fut := p.fut.filter keep, cache := dropIds p.cache (p.fut.filter (fun e => !keep e)) }

def capAll (p : Pool) (k : Nat) : Nat → Pool
  | 0 => p
  | n + 1 => capAccount (capAll p k n) n k

/-- the eviction tick with a Lifetime every queue has outlived: every queued transaction goes (`removeFutureTx`) -/
def evictAll (p : Pool) : Pool := { p with fut := [], cache := dropIds p.cache p.fut }

/-- `filterTxs` when every pending transaction is older than GoodTxDropTime: what the block did not take is dropped -/
def dropTimedOut (p : Pool) (ids : List Nat) : Pool :=
  { p with good := p.good.filter (fun e => ids.contains e.id), utxo := p.utxo.filter (fun e => ids.contains e.id),
           cache := dropIds p.cache ((p.good ++ p.utxo).filter (fun e => !ids.contains e.id)) }


/-! ### the special lane (specGoodTxs: MultiSignAccountTx)

One more list, filled by `addLocalSpecTx` (state check on the nonce of the fixed multi-sign address, no fee, no future
queue: nonce-too-high is an error; the list is capped by config.SpecSize AFTER the state check), rechecked by
`recheckSpecTxs` on Update and returned by `Reap` after goodTxs and utxoTxs; its whole length is taken off the budget of
goodTxs.  The lane state lives beside `Pool` (the driver keeps it); `reapS` is `Reap` with that lane. -/

def reapS (p : Pool) (spec : List E) (specSize : Nat) (max : Nat) : List E :=
  if max = 0 then []
  else
    let m := if max > p.cfg.maxReap then p.cfg.maxReap else max
    let us := collect p.cfg.utxoSize p.utxo p.cfg.utxoSize 0
    let ss := collect p.cfg.utxoSize spec specSize 0
    let gs := collect p.cfg.utxoSize p.good (m - ss.length - us.length) 0
    gs ++ us ++ ss

/-- the lane's transactions executed in block order from the committed multi-sign nonce: the nonce after, or none -/
def specRun : Nat → List TxRec → Option Nat
  | n, [] => some n
  | n, t :: rest => if t.nonce = n then specRun (n + 1) rest else none

/-- `recheckSpecTxs`: keep what still carries the due nonce, in order; returns (kept, speculative nonce) -/
def specRecheck : Nat → List E → List E × Nat
  | n, [] => ([], n)
  | n, e :: rest =>
    if e.t.nonce = n then let r := specRecheck (n + 1) rest; (e :: r.1, r.2)
    else specRecheck n rest

end Model.Mempool
