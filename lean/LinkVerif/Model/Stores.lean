/-
C13 — committed history survives crashes and pruning.

Part 1 (pruning): the two pruning loops (blockchain/store.go BlockStore.DeleteHistoricalData, consensus/state.go
ConsensusState.DeleteHistoricalData) over the record families they touch, with the per-height validator / parameter records
of consensus/new_status.go: the record at height h is either FULL (carries the set; written when the set changed at h) or a
POINTER to the height of the last change; LoadValidators(h) reads the record at h and, for a pointer, the record it names.
The model mirrors the code after the fixes 73260cb and c4498a3 (the block-store guard `maxHeight < keep`, the status loop
bound and the kept pointer targets).

Part 2 (crash points): the commit of one block is a sequence of durable writes (each database batch is one write); a crash
after the first k-1 writes leaves exactly those applied.  `verdict` says which store families then disagree after the restart,
as a function of where the block-store height descriptor, the block records, the transaction index and the confidential-output
store writes sit in the sequence.  It mirrors what the code does today: the descriptor decides the height, nothing reconciles
the confidential-output store or the transaction index with it.
Core Lean only.
-/
namespace Model.Stores

/-! ## Part 1: pruning -/

structure St where
  H : Nat := 0                              -- last committed block; records exist for heights 1..H+1
  ptr : Nat → Nat := fun _ => 1             -- LastHeightChanged stored in the validator record at h
  delB : Nat → Bool := fun _ => false       -- block h (parts, commits, receipts, tx index entries) pruned
  delV : Nat → Bool := fun _ => false       -- validator record h deleted
  delP : Nat → Bool := fun _ => false       -- parameter record h deleted
  startB : Nat := 1                         -- BlockStore.startDeleteHeight
  startS : Nat := 0                         -- ConsensusState.startDeleteHeight as the loop sees it (0 until the first effective run)

/-- one committed block; `chg` = the validator set changes with it (updateStatus: LastHeightValidatorsChanged = h+1) -/
def commit (s : St) (chg : Bool) : St :=
  let top := s.H + 2
  { s with H := s.H + 1, ptr := fun h => if h = top then (if chg then top else s.ptr (s.H + 1)) else s.ptr h }

/-- BlockStore.DeleteHistoricalData(K) -/
def pruneB (s : St) (K : Nat) : St :=
  if s.H < K ∨ s.H - K < s.startB then s
  else { s with delB := fun h => s.delB h || (decide (s.startB ≤ h) && decide (h ≤ s.H - K)), startB := s.H - K + 1 }

def presentV (s : St) (h : Nat) : Bool := decide (1 ≤ h) && decide (h ≤ s.H + 1) && !s.delV h
def presentP (s : St) (h : Nat) : Bool := decide (1 ≤ h) && decide (h ≤ s.H + 1) && !s.delP h

/-- ConsensusState.DeleteHistoricalData(K); cs.Height = H+1 -/
def pruneS (s : St) (K : Nat) : St :=
  let cur := s.H + 1
  if cur < s.startS + K then s
  else
    let first := cur - K
    let keepV := if presentV s first && s.ptr first != first then s.ptr first else 0
    let keepP := if presentP s first && first != 1 then 1 else 0
    { s with delV := fun h => s.delV h || (decide (s.startS ≤ h) && decide (h < first) && h != keepV),
             delP := fun h => s.delP h || (decide (s.startS ≤ h) && decide (h < first) && h != keepP),
             startS := first }

def prune (s : St) (K : Nat) : St := pruneS (pruneB s K) K

/-- LoadBlock / LoadBlockCommit / LoadSeenCommit / GetTx for height h -/
def loadBlock (s : St) (h : Nat) : Bool := decide (1 ≤ h) && decide (h ≤ s.H) && !s.delB h

inductive Loaded where
  | missing            -- ErrNoValSetForHeight
  | panics             -- PanicSanity: pointer to a deleted record
  | found (changed : Nat)
deriving Repr, DecidableEq

/-- LoadValidators(h) -/
def loadVals (s : St) (h : Nat) : Loaded :=
  if !presentV s h then .missing
  else if s.ptr h = h then .found h
  else if presentV s (s.ptr h) then .found (s.ptr h) else .panics

/-- LoadConsensusParams(h): the parameters never change (updateStatus copies them), the record at height 1 is the full one -/
def loadParams (s : St) (h : Nat) : Loaded :=
  if !presentP s h then .missing
  else if h = 1 then .found 1
  else if presentP s 1 then .found 1 else .panics

inductive Op where
  | commit (chg : Bool)
  | prune (K : Nat)
deriving Repr, DecidableEq

def step (s : St) : Op → St
  | .commit c => commit s c
  | .prune K => prune s K

def run (s : St) (ops : List Op) : St := ops.foldl step s

/-! ## Part 2: crash points of one block commit -/

/-- positions (1-based) in the write sequence of one commit; 0 = the write does not occur -/
structure Seq where
  len : Nat
  txIndex : Nat      -- cross.batch:Tx      transaction index entries
  blockRec : Nat     -- block.batch:…       parts, meta, commits of the block
  desc : Nat         -- block.Set:blockStore   the block store's height descriptor
  keyImages : Nat    -- utxo.batch          spent key images
  outputs : Nat      -- utxoOutput.batch    confidential outputs
  maxSeq : Nat       -- utxo.Put:token_muos_   per-token highest output sequence
deriving Repr, DecidableEq

/-- what the block carries -/
structure Content where
  txs : Nat
  spends : Nat       -- confidential inputs (key images)
  outs : Nat         -- confidential outputs
deriving Repr, DecidableEq

/-- write number `p` survived a crash at the k-th write (writes 1..k-1 are durable) -/
def applied (p k : Nat) : Bool := decide (0 < p) && decide (p < k)

/-- height after the restart, relative to the height before the commit: the descriptor decides -/
def heightAfter (q : Seq) (k : Nat) : Nat := if applied q.desc k then 1 else 0

def utxoBehind (q : Seq) (c : Content) (k : Nat) : Bool :=
  applied q.desc k &&
    ((decide (0 < c.spends) && !applied q.keyImages k) || (decide (0 < c.outs) && (!applied q.outputs k || !applied q.maxSeq k)))

def txIndexAhead (q : Seq) (c : Content) (k : Nat) : Bool :=
  !applied q.desc k && decide (0 < c.txs) && applied q.txIndex k && applied q.blockRec k

/-- the spent inputs of the committed block pass admission and get committed a second time -/
def respend (q : Seq) (c : Content) (k : Nat) : Bool :=
  applied q.desc k && decide (0 < c.spends) && !applied q.keyImages k

/-- the inconsistencies after a crash at the k-th write, sorted as the harness prints them -/
def verdict (q : Seq) (c : Content) (k : Nat) : List String :=
  (if respend q c k then ["committed-spend-committed-again-after-restart"] else []) ++
  (if txIndexAhead q c k then ["tx-index-ahead"] else []) ++
  (if utxoBehind q c k then ["utxo-store-behind-block-store"] else [])

/-! ## Part 3: the status save (consensus/new_status.go saveStatus) -/

/-- saveStatus for last block height h writes, in order: (1) the validator record of h+1, (2) the parameter record of h+1,
(3) the status itself, then the per-height copies: (4) delete of the copy of height h-10 when h > 10, (5) the copy of h -/
def statusWrites (h : Nat) : Nat := if h > 10 then 5 else 4

/-- the status record survived a crash at the k-th write -/
def statusAdvanced (k : Nat) : Bool := applied 3 k
/-- the records of the next height survived -/
def nextRecords (k : Nat) : Bool := applied 1 k && applied 2 k

/-! ## Part 4: application height, WAL end-of-height marker and consensus status across a crash

consensus/state.go finalizeCommit performs, in this order: the application commit (block store, state, confidential
stores: Part 2), the fsynced `EndHeightMessage` of the consensus WAL, `ApplyBlock` (updateStatus + SaveStatus: Part 3).
node/node.go NewNode rebuilds a status that is exactly one block behind the application by running ApplyBlock on the
stored block. -/

structure Heights where
  app : Nat
  walEnd : Nat
  status : Nat
deriving Repr, DecidableEq

/-- finalizeCommit of the next block, cut by a crash after `k` of its three durable steps (k ≥ 3: not cut) -/
def commitCut (s : Heights) (k : Nat) : Heights :=
  { app := if 1 ≤ k then s.app + 1 else s.app,
    walEnd := if 2 ≤ k then s.walEnd + 1 else s.walEnd,
    status := if 3 ≤ k then s.status + 1 else s.status }

/-- NewNode's reconciliation -/
def restartNode (s : Heights) : Heights := if s.status + 1 = s.app then { s with status := s.app } else s

inductive NodeOp where
  | commit            -- a complete finalizeCommit
  | crash (k : Nat)   -- a finalizeCommit cut after k steps, followed by the restart
deriving Repr, DecidableEq

def nodeStep (s : Heights) : NodeOp → Heights
  | .commit => commitCut s 3
  | .crash k => restartNode (commitCut s k)

/-! ## Part 5: the flat (kv-mode) world state and its undo log (state/keyvalue.go)

A block commit in kv mode performs, in this order (SaveWAL, then wrappedTrie.Commit per trie): truncate the undo log;
persist `kvHeight := h` (SetSync); then for every trie of the block — the account trie and each dirty storage trie, whose key
spaces are disjoint (storage keys carry the account address as prefix) — append the pre-images of the keys it is about to write
to the undo log (fsync), and only then commit its batch.  At startup NewKeyValueDBWithCache compares kvHeight with the block
store's height H: equal → nothing to do; H+1 → the undo log is applied (rebuildLastState); 0 → fresh; anything else → panic. -/

abbrev KV := Nat → Nat          -- key ↦ value, 0 = absent
abbrev Updates := List (Nat × Nat)

structure KvDisk where
  kv : KV
  wal : Updates                 -- (key, pre-image) in append order
  kvh : Nat

inductive KvWrite where
  | truncate
  | setHeight (h : Nat)
  | walAppend (us : Updates)
  | batch (us : Updates)

def applyUpd (kv : KV) (us : Updates) : KV := us.foldl (fun f p => fun x => if x = p.1 then p.2 else f x) kv

def applyWrite (d : KvDisk) : KvWrite → KvDisk
  | .truncate => { d with wal := [] }
  | .setHeight h => { d with kvh := h }
  | .walAppend us => { d with wal := d.wal ++ us.map (fun p => (p.1, d.kv p.1)) }
  | .batch us => { d with kv := applyUpd d.kv us }

/-- the durable writes of committing block `h` whose tries carry the given updates -/
def kvCommitWrites (h : Nat) (tries : List Updates) : List KvWrite :=
  [.truncate, .setHeight h] ++ tries.flatMap (fun us => [.walAppend us, .batch us])

/-- the disk after a crash that let exactly the first `k` writes through -/
def kvCrashAt (d : KvDisk) (ws : List KvWrite) (k : Nat) : KvDisk := (ws.take k).foldl applyWrite d

/-- NewKeyValueDBWithCache against block-store height H; `none` = the startup panic -/
def kvRecover (d : KvDisk) (H : Nat) : Option KvDisk :=
  if d.kvh = H then some d
  else if d.kvh = H + 1 then some { d with kv := applyUpd d.kv d.wal }
  else if d.kvh = 0 then some d
  else none

end Model.Stores
