/-
C11, layer 2: libs/ser as it is today — the local conventions on top of the RLP framing, byte level.

  Ty   : the type universe (what makeWriter/makeDecoder distinguish); the harness derives the `Ty` of every real Go type
         by reflection and sends it as data (`def`/`reg` op lines), so nothing here names a repo type
  Val  : untyped value trees
  encV : the writers of encode.go + writeCDCInterface
  decV : the decoders of decode.go + decodeCDCInterface, run on a faithful model of `ser.Stream`
         (input limit, list stack, the cached/sticky `Kind`), returning the (possibly partial) value, the error and the
         stream — because decodeCDCInterface DROPS the error of the inner decoder and keeps the half-decoded object

Core Lean only.  Every function is total; a Go run-time panic is the error class `Err.panic`.
-/
import LinkVerif.Model.Rlp

namespace Model.Ser
open Model.Rlp

inductive Ty where
  | uint (bits : Nat) | int (bits : Nat) | bool | bigptr | bigval | bytes | string | bytearr (n : Nat) | time | map20
  | slice (e : Ty) | arr (n : Nat) (e : Ty) | struct (fs : List Ty)
  | ptr (e : Ty)                      -- generic pointer: makePtrWriter / makeOptionalPtrDecoder
  | cptr (atomic : Bool) (e : Ty)     -- pointer to a type with EncodeSER/DecodeSER (writeEncoder / decodeDecoder)
  | cval (atomic : Bool) (e : Ty)     -- value of such a type (writeEncoderNoPtr / decodeDecoderNoPtr)
  | iface (impl : List Nat)           -- registered interface; `impl` = registry entries assignable to it
  | ref (id : Nat)                    -- named type
  | split (e d : Ty)                  -- encoder-side / decoder-side treatment differ ([]*big.Int, []*Transaction)
  | unsupported
deriving Repr, Inhabited

inductive Val where
  | u (n : Nat) | i (z : Int) | b (v : Bool) | bytes (bs : Bytes) | nil | ptr (v : Val) | list (vs : List Val)
  | iface (idx : Nat) (v : Val) | map (ks : List Bytes) (vs : List Val) | big (neg : Bool) (n : Nat) | time (sec nsec : Int)
deriving Repr, Inhabited

structure RegEntry where
  idx : Nat
  disfix : Bytes
  ptr : Bool
  ty : Option Nat
deriving Repr, Inhabited

structure Env where
  defs : List (Nat × Ty) := []
  regs : List RegEntry := []
deriving Inhabited

def Env.def? (env : Env) (id : Nat) : Option Ty := (env.defs.find? (·.1 == id)).map (·.2)
def Env.reg? (env : Env) (idx : Nat) : Option RegEntry := env.regs.find? (·.idx == idx)
def Env.byDisfix? (env : Env) (d : Bytes) : Option RegEntry := env.regs.find? (·.disfix == d)

/-! ### integer text: strconv.FormatInt(·,16) / ParseInt(·,16,64) -/

def hexDigitChar (n : Nat) : UInt8 := if n < 10 then UInt8.ofNat (48 + n) else UInt8.ofNat (87 + n)

/-- lower-case hex digits of `n`, most significant first, at most `f` of them ("0" is handled by the caller) -/
def hexDigitsF : Nat → Nat → Bytes
  | 0, _ => []
  | f + 1, n => if n = 0 then [] else hexDigitsF f (n / 16) ++ [hexDigitChar (n % 16)]

def hexNat (n : Nat) : Bytes := if n = 0 then [48] else hexDigitsF n n

def formatInt16 (z : Int) : Bytes := if z < 0 then 45 :: hexNat z.natAbs else hexNat z.natAbs

def hexVal? (c : UInt8) : Option Nat :=
  if 48 ≤ c ∧ c ≤ 57 then some (c.toNat - 48)
  else if 97 ≤ c ∧ c ≤ 102 then some (c.toNat - 87)
  else if 65 ≤ c ∧ c ≤ 70 then some (c.toNat - 55)
  else none

def parseHexDigits : Bytes → Nat → Option Nat
  | [], acc => some acc
  | c :: cs, acc => match hexVal? c with
    | none => none
    | some d => parseHexDigits cs (acc * 16 + d)

/-- ParseInt(s, 16, 64): optional sign, at least one hex digit of either case, range check -/
def parseInt16 (s : Bytes) : Option Int :=
  let (neg, ds) := match s with
    | 43 :: r => (false, r)
    | 45 :: r => (true, r)
    | r => (false, r)
  if ds.isEmpty then none else
  match parseHexDigits ds 0 with
  | none => none
  | some n =>
    if neg then (if n ≤ 2 ^ 63 then some (-(n : Int)) else none)
    else (if n < 2 ^ 63 then some (n : Int) else none)

/-- reflect.Value.SetInt on a `bits`-wide kind: two's complement truncation -/
def wrapInt (bits : Nat) (z : Int) : Int :=
  let m : Int := 2 ^ bits
  let r := z % m
  if r ≥ m / 2 then r - m else r

/-- big.Int.Bytes(): minimal big-endian, any size -/
def natBytes (n : Nat) : Bytes := beBytesF n n

/-! ### map key order: sort.Sort over bytes.Compare -/

def bytesLt : Bytes → Bytes → Bool
  | [], [] => false
  | [], _ :: _ => true
  | _ :: _, [] => false
  | a :: as, b :: bs => if a < b then true else if b < a then false else bytesLt as bs

def insertKV (k : Bytes) (v : Val) : List (Bytes × Val) → List (Bytes × Val)
  | [] => [(k, v)]
  | (k', v') :: r => if bytesLt k k' then (k, v) :: (k', v') :: r else (k', v') :: insertKV k v r

def sortKV : List (Bytes × Val) → List (Bytes × Val)
  | [] => []
  | (k, v) :: r => insertKV k v (sortKV r)

/-- SetMapIndex: last write wins -/
def mapPut (k : Bytes) (v : Val) : List (Bytes × Val) → List (Bytes × Val)
  | [] => [(k, v)]
  | (k', v') :: r => if k' == k then (k, v) :: r else (k', v') :: mapPut k v r

/-! ### zero values -/

def zeroV (env : Env) : Nat → Ty → Val
  | 0, _ => .nil
  | f + 1, t => match t with
    | .uint _ => .u 0
    | .int _ => .i 0
    | .bool => .b false
    | .bigptr => .nil
    | .bigval => .big false 0
    | .bytes => .bytes []
    | .string => .bytes []
    | .bytearr n => .bytes (List.replicate n 0)
    | .time => .time (-62135596800) 0
    | .map20 => .map [] []
    | .slice _ => .list []
    | .arr n e => .list (List.replicate n (zeroV env f e))
    | .struct fs => .list (fs.map (zeroV env f))
    | .ptr _ => .nil
    | .cptr _ _ => .nil
    | .cval _ e => zeroV env f e
    | .iface _ => .nil
    | .ref id => match env.def? id with
      | some t' => zeroV env f t'
      | none => .nil
    | .split e _ => zeroV env f e
    | .unsupported => .nil

/-! ### encoder -/

def encBig (neg : Bool) (n : Nat) : Except Err Bytes :=
  if n = 0 then .ok [0x80] else if neg then .error .negBig else .ok (encStr (natBytes n))

def encListHead (payload : Bytes) : Bytes := encHead 0xC0 0xF7 payload.length ++ payload

def encSeq (f : Ty → Val → Except Err Bytes) : List Ty → List Val → Except Err Bytes
  | [], [] => .ok []
  | t :: ts, v :: vs => match f t v with
    | .error e => .error e
    | .ok b => match encSeq f ts vs with
      | .error e => .error e
      | .ok bs => .ok (b ++ bs)
  | _, _ => .error .unsupported

def encAll (f : Val → Except Err Bytes) : List Val → Except Err Bytes
  | [] => .ok []
  | v :: vs => match f v with
    | .error e => .error e
    | .ok b => match encAll f vs with
      | .error e => .error e
      | .ok bs => .ok (b ++ bs)

/-- map payload after sorting: key as byte array, value through writeBigIntNoPtr (a nil value panics in reflect) -/
def encMapEntries : List (Bytes × Val) → Except Err Bytes
  | [] => .ok []
  | (k, v) :: r =>
    match (match v with
      | .ptr (.big neg n) => encBig neg n
      | .nil => .error .panic
      | _ => .error .unsupported) with
    | .error e => .error e
    | .ok bv => match encMapEntries r with
      | .error e => .error e
      | .ok bs => .ok (encStr k ++ bv ++ bs)

/-- what `makePtrWriter` writes for a nil pointer, by element kind -/
def resolve (env : Env) : Nat → Ty → Ty
  | 0, t => t
  | f + 1, .ref id => match env.def? id with
    | some t => resolve env f t
    | none => .unsupported
  | _, t => t

def encV (env : Env) : Nat → Ty → Val → Except Err Bytes
  | 0, _, _ => .error .fuel
  | f + 1, t, v =>
    match t, v with
    | .uint _, .u n => .ok (encStr (beBytes n))
    | .int _, .i z => .ok (encStr (formatInt16 z))
    | .bool, .b true => .ok [0x01]
    | .bool, .b false => .ok [0x80]
    | .bigptr, .nil => .ok [0x80]
    | .bigptr, .ptr (.big neg n) => encBig neg n
    | .bigval, .big neg n => encBig neg n
    | .bytes, .bytes bs => .ok (encStr bs)
    | .string, .bytes bs => .ok (encStr bs)
    | .bytearr n, .bytes bs => if bs.length = n then .ok (encStr bs) else .error .unsupported
    | .time, .time sec nsec => .ok (encListHead (encStr (formatInt16 sec) ++ encStr (formatInt16 nsec)))
    | .map20, .map ks vs =>
      if ks.length ≠ vs.length then .error .unsupported else
      match encMapEntries (sortKV (ks.zip vs)) with
      | .error e => .error e
      | .ok p => .ok (encListHead (encStr (formatInt16 ks.length) ++ p))
    | .slice e, .list vs => match encAll (encV env f e) vs with
      | .error e => .error e
      | .ok p => .ok (encListHead p)
    | .arr n e, .list vs =>
      if vs.length ≠ n then .error .unsupported else
      match encAll (encV env f e) vs with
      | .error e => .error e
      | .ok p => .ok (encListHead p)
    | .struct fs, .list vs => match encSeq (encV env f) fs vs with
      | .error e => .error e
      | .ok p => .ok (encListHead p)
    | .ptr e, .nil =>
      match resolve env 64 e with
      | .bytearr _ => .ok [0x80]
      | .struct _ | .arr _ _ | .time | .cval _ _ => .ok [0xC0]
      | _ => encV env f e (zeroV env 64 e)
    | .ptr e, .ptr v => encV env f e v
    | .cptr _ _, .nil => .error .panic        -- EncodeSER on a nil receiver dereferences it
    | .cptr _ e, .ptr v => encV env f e v
    | .cval _ e, v => encV env f e v
    | .iface _, .nil => .ok [0x00]
    | .iface _, .iface idx v =>
      match env.reg? idx with
      | none => .error .unregistered
      | some r => match r.ty with
        | none => .error .unsupported
        | some id => match encV env f (.ref id) v with
          | .error e => .error e
          | .ok b => .ok (r.disfix ++ b)
    | .ref id, v => match env.def? id with
      | some t' => encV env f t' v
      | none => .error .unsupported
    | .split e _, v => encV env f e v
    | _, _ => .error .unsupported

/-! ### `ser.Stream` -/

structure Stream where
  rest : Bytes                       -- what the reader still holds
  stack : List (Nat × Nat) := []     -- (pos, size), innermost list first
  kind : Option Kind := none         -- none = -1 ("rearmed")
  size : Nat := 0
  byteval : UInt8 := 0
  kinderr : Option Err := none
  /-- input limit: `limited = !unlimited`, `remaining = rest.length + phantom`.  DecodeBytes: the limit is len(b), so
      phantom = 0.  DecodeReader(r, limit): a limit larger than what the reader holds is `phantom > 0` (the size checks
      pass, the read hits EOF); NewStream(r, 0) on a reader that is not a bytes/strings.Reader: unlimited. -/
  unlimited : Bool := false
  phantom : Nat := 0
  /-- the largest size handed to `make([]byte, size)` by Stream.Bytes so far -/
  alloc : Nat := 0
deriving Inhabited

/-- `s.limited && n > s.remaining` -/
def over (s : Stream) (n : Nat) : Bool := !s.unlimited && decide (n > s.rest.length + s.phantom)

def willRead (n : Nat) (s : Stream) : Option Err × Stream :=
  let s := { s with kind := none }
  match s.stack with
  | (pos, size) :: up =>
    if n > size - pos then (some .elemTooLarge, s)
    else
      let s := { s with stack := (pos + n, size) :: up }
      if over s n then (some .valueTooLarge, s) else (none, { s with phantom := s.phantom - (n - s.rest.length) })
  | [] => if over s n then (some .valueTooLarge, s) else (none, { s with phantom := s.phantom - (n - s.rest.length) })

def readByte (s : Stream) : Except Err UInt8 × Stream :=
  match willRead 1 s with
  | (some e, s) => (.error e, s)
  | (none, s) => match s.rest with
    | b :: r => (.ok b, { s with rest := r })
    | [] => (.error .eof, s)

/-- on a short read the loop of readFull consumes what there is and reports io.ErrUnexpectedEOF -/
def readFull (n : Nat) (s : Stream) : Except Err Bytes × Stream :=
  match willRead n s with
  | (some e, s) => (.error e, s)
  | (none, s) =>
    if n > s.rest.length then (.error .eof, { s with rest := [] })
    else (.ok (s.rest.take n), { s with rest := s.rest.drop n })

def readUintSz (sz : Nat) (s : Stream) : Except Err Nat × Stream :=
  match sz with
  | 0 => (.ok 0, { s with kind := none })
  | 1 => match readByte s with
    | (.error e, s) => (.error e, s)
    | (.ok b, s) => (.ok b.toNat, s)
  | _ => match readFull sz s with
    | (.error e, s) => (.error e, s)
    | (.ok d, s) => if d.head? = some 0 then (.error .canonSize, s) else (.ok (beVal d), s)

/-- readKind: (kind, size, err); byteval is stored in the stream -/
def readKind (s : Stream) : (Kind × Nat × Option Err) × Stream :=
  match readByte s with
  | (.error e, s) =>
    let e := if s.stack.isEmpty ∧ e = .valueTooLarge then Err.eof else e
    ((.byte, 0, some e), s)
  | (.ok b, s) =>
    let s := { s with byteval := 0 }
    if b < 0x80 then ((.byte, 0, none), { s with byteval := b })
    else if b < 0xB8 then ((.string, b.toNat - 0x80, none), s)
    else if b < 0xC0 then
      match readUintSz (b.toNat - 0xB7) s with
      | (.error e, s) => ((.string, 0, some e), s)
      | (.ok n, s) => ((.string, n, if n < 56 then some .canonSize else none), s)
    else if b < 0xF8 then ((.list, b.toNat - 0xC0, none), s)
    else
      match readUintSz (b.toNat - 0xF7) s with
      | (.error e, s) => ((.list, 0, some e), s)
      | (.ok n, s) => ((.list, n, if n < 56 then some .canonSize else none), s)

/-- the innermost list has been read to its end -/
def atEnd (s : Stream) : Bool :=
  match s.stack with
  | (pos, size) :: _ => pos == size
  | [] => false

/-- the size checks of Stream.Kind: top level against the input limit, inside a list against the list -/
def limitErr (s : Stream) (sz : Nat) : Option Err :=
  match s.stack with
  | [] => if over s sz then some .valueTooLarge else none
  | (pos, size) :: _ => if sz > size - pos then some .elemTooLarge else none

/-- Stream.Kind -/
def kindOf (s : Stream) : (Kind × Nat × Option Err) × Stream :=
  match s.kind with
  | some k => ((k, s.size, s.kinderr), s)
  | none =>
    let s0 : Stream := { s with kinderr := none }
    if atEnd s0 then ((.byte, 0, some .eol), s0)
    else
      let r := readKind s0
      let e := match r.1.2.2 with
        | some e => some e
        | none => limitErr r.2 r.1.2.1
      ((r.1.1, r.1.2.1, e), { r.2 with kind := some r.1.1, size := r.1.2.1, kinderr := e })

/-- Stream.Bytes -/
def sBytes (s : Stream) : Except Err Bytes × Stream :=
  match kindOf s with
  | ((_, _, some e), s) => (.error e, s)
  | ((.byte, _, none), s) => (.ok [s.byteval], { s with kind := none })
  | ((.string, sz, none), s) =>
    -- `b := make([]byte, size)` happens before the read
    match readFull sz { s with alloc := max s.alloc sz } with
    | (.error e, s) => (.error e, s)
    | (.ok b, s) => if single7 b then (.error .canonSize, s) else (.ok b, s)
  | ((.list, _, none), s) => (.error .expectedString, s)

/-- Stream.uint(maxbits) -/
def sUint (maxbits : Nat) (s : Stream) : Except Err Nat × Stream :=
  match kindOf s with
  | ((_, _, some e), s) => (.error e, s)
  | ((.byte, _, none), s) =>
    if s.byteval = 0 then (.error .canonInt, s) else (.ok s.byteval.toNat, { s with kind := none })
  | ((.string, sz, none), s) =>
    if sz > maxbits / 8 then (.error .uintOverflow, s)
    else match readUintSz sz s with
      | (.error .canonSize, s) => (.error .canonInt, s)
      | (.error e, s) => (.error e, s)
      | (.ok v, s) => if sz > 0 ∧ v < 128 then (.error .canonSize, s) else (.ok v, s)
  | ((.list, _, none), s) => (.error .expectedString, s)

/-- Stream.List -/
def sList (s : Stream) : Except Err Nat × Stream :=
  match kindOf s with
  | ((_, _, some e), s) => (.error e, s)
  | ((.list, sz, none), s) => (.ok sz, { s with stack := (0, sz) :: s.stack, kind := none, size := 0 })
  | ((_, _, none), s) => (.error .expectedList, s)

/-- Stream.Bool -/
def sBool (s : Stream) : Except Err Bool × Stream :=
  match sUint 8 s with
  | (.error e, s) => (.error e, s)
  | (.ok 0, s) => (.ok false, s)
  | (.ok 1, s) => (.ok true, s)
  | (.ok _, s) => (.error .badBool, s)

/-- Stream.Raw: the next value with a freshly made header in front of its content; lists are not entered and a one-byte
    string below 0x80 is NOT rejected (the content is taken as is) -/
def sRaw (s : Stream) : Except Err Bytes × Stream :=
  match kindOf s with
  | ((_, _, some e), s) => (.error e, s)
  | ((.byte, _, none), s) => (.ok [s.byteval], { s with kind := none })
  | ((k, sz, none), s) =>
    let h := if k == .string then encHead 0x80 0xB7 sz else encHead 0xC0 0xF7 sz
    match readFull sz { s with alloc := max s.alloc (h.length + sz) } with
    | (.error e, s) => (.error e, s)
    | (.ok b, s) => (.ok (h ++ b), s)

/-- Stream.ListEnd -/
def sListEnd (s : Stream) : Option Err × Stream :=
  match s.stack with
  | [] => (some .notInList, s)
  | (pos, size) :: up =>
    if pos ≠ size then (some .notAtEOL, s)
    else
      let up' := match up with
        | (p, z) :: r => (p + size, z) :: r
        | [] => []
      (none, { s with stack := up', kind := none, size := 0 })

/-! ### decoders: result = (value written so far, error, stream) -/

abbrev DecR := Val × Option Err × Stream

def decBytesLike (s : Stream) : DecR :=
  match sBytes s with
  | (.error e, s) => (.bytes [], some e, s)
  | (.ok b, s) => (.bytes b, none, s)

def decInt (bits : Nat) (s : Stream) : DecR :=
  match sBytes s with
  | (.error e, s) => (.i 0, some e, s)
  | (.ok b, s) => match parseInt16 b with
    | none => (.i 0, some .parseInt, s)
    | some z => (.i (wrapInt bits z), none, s)

def decBigPtr (s : Stream) : DecR :=
  match sBytes s with
  | (.error e, s) => (.nil, some e, s)
  | (.ok b, s) =>
    if b.head? = some 0 then (.ptr (.big false 0), some .canonInt, s)
    else (.ptr (.big false (beVal b)), none, s)

def decBigVal (s : Stream) : DecR :=
  match sBytes s with
  | (.error e, s) => (.big false 0, some e, s)
  | (.ok b, s) =>
    if b.head? = some 0 then (.big false 0, some .canonInt, s)
    else (.big false (beVal b), none, s)

/-- decodeByteArray (including the [1]byte quirk: a 0x00 byte is stored but, the error of s.Uint() being ignored,
    not consumed) -/
def decByteArr (n : Nat) (s : Stream) : DecR :=
  let z : Val := .bytes (List.replicate n 0)
  match kindOf s with
  | ((_, _, some e), s) => (z, some e, s)
  | ((.byte, _, none), s) =>
    if n = 0 then (z, some .tooLong, s)
    else if n > 1 then (z, some .tooShort, s)
    else if s.byteval = 0 then (.bytes [0], none, s)
    else (.bytes [s.byteval], none, { s with kind := none })
  | ((.string, sz, none), s) =>
    if n < sz then (z, some .tooLong, s)
    else if n > sz then (z, some .tooShort, s)
    else match readFull n s with
      -- a short read (only possible when the limit exceeds what the reader holds) has already copied what there was
      | (.error .eof, s') => (.bytes (s.rest.take n ++ List.replicate (n - (s.rest.take n).length) 0), some .eof, s')
      | (.error e, s) => (z, some e, s)
      | (.ok b, s) => if single7 b then (.bytes b, some .canonSize, s) else (.bytes b, none, s)
  | ((.list, _, none), s) => (z, some .expectedString, s)

/-- decodeInt with its error ignored (the time decoder): the value, or 0 -/
def intOr0 (r : DecR) : Int × Stream :=
  match r with
  | (.i v, none, s) => (v, s)
  | (_, _, s) => (0, s)

def decTime (s : Stream) : DecR :=
  let z : Val := .time (-62135596800) 0
  match sList s with
  | (.error e, s) => (z, some e, s)
  | (.ok _, s) =>
    let a := intOr0 (decInt 64 s)
    let b := intOr0 (decInt 32 a.2)
    if b.1 < 0 ∨ 999999999 < b.1 then (z, some .badTime, b.2)
    else
      let r := sListEnd b.2
      (.time a.1 b.1, r.1, r.2)

def keyBytes (k : Val) : Bytes :=
  match k with
  | .bytes b => b
  | _ => []

/-- the entry loop of the map decoder: `cnt` further entries -/
def decMapEntries : Nat → List (Bytes × Val) → Stream → Except Err (List (Bytes × Val)) × Stream
  | 0, acc, s => (.ok acc, s)
  | cnt + 1, acc, s =>
    match decByteArr 20 s with
    | (_, some e, s) => (.error e, s)
    | (k, none, s) =>
      match decBigPtr s with
      | (_, some e, s) => (.error e, s)
      | (v, none, s) =>
        decMapEntries cnt (mapPut (keyBytes k) v acc) s

def decMap (s : Stream) : DecR :=
  let z : Val := .map [] []
  match sList s with
  | (.error e, s) => (z, some e, s)
  | (.ok sz, s) =>
    if sz = 0 then
      let (e, s) := sListEnd s
      (z, e, s)
    else match decInt 64 s with
      | (.i len, none, s) =>
        -- fix 8c7e349: an entry takes at least 22 bytes of the list, a count the list cannot hold is rejected
        -- before it sizes the map (`len < 0 || uint64(len) > size/22`)
        if len < 0 ∨ len.toNat > sz / 22 then (z, some .tooLong, s) else
        let cnt := len.toNat
        match decMapEntries cnt [] s with
        | (.error e, s) => (z, some e, s)
        | (.ok kvs, s) =>
          let kvs := sortKV kvs
          let (e, s) := sListEnd s
          (.map (kvs.map (·.1)) (kvs.map (·.2)), e, s)
      | (_, e, s) => (z, e, s)

/-- decodeSliceElems: stops at EOL; on an element error the slice keeps the elements so far plus the partial one -/
def decElems (dec : Stream → DecR) : Nat → List Val → Stream → DecR
  | 0, acc, s => (.list acc.reverse, some .fuel, s)
  | n + 1, acc, s =>
    match dec s with
    | (_, some .eol, s) => (.list acc.reverse, none, s)
    | (v, some e, s) => (.list (v :: acc).reverse, some e, s)
    | (v, none, s) => decElems dec n (v :: acc) s

/-- decodeListArray's element loop -/
def decArrElems (dec : Stream → DecR) (zero : Val) : Nat → List Val → Stream → DecR
  | 0, acc, s => (.list acc.reverse, none, s)
  | n + 1, acc, s =>
    match dec s with
    | (_, some .eol, s) => (.list (acc.reverse ++ List.replicate (n + 1) zero), some .tooFew, s)
    | (v, some e, s) => (.list (acc.reverse ++ v :: List.replicate n zero), some e, s)
    | (v, none, s) => decArrElems dec zero n (v :: acc) s

/-- struct fields in order; `zs` are the zero values of the fields not reached -/
def decFields (dec : Ty → Stream → DecR) (zero : Ty → Val) : List Ty → List Val → Stream → DecR
  | [], acc, s => (.list acc.reverse, none, s)
  | t :: ts, acc, s =>
    match dec t s with
    | (_, some .eol, s) => (.list (acc.reverse ++ (t :: ts).map zero), some .tooFew, s)
    | (v, some e, s) => (.list (acc.reverse ++ v :: ts.map zero), some e, s)
    | (v, none, s) => decFields dec zero ts (v :: acc) s

def readN : Nat → Stream → Except Err Bytes × Stream
  | 0, s => (.ok [], s)
  | n + 1, s => match readByte s with
    | (.error e, s) => (.error e, s)
    | (.ok b, s) => match readN n s with
      | (.error e, s) => (.error e, s)
      | (.ok bs, s) => (.ok (b :: bs), s)

def decV (env : Env) : Nat → Ty → Stream → DecR
  | 0, _, s => (.nil, some .fuel, s)
  | f + 1, t, s =>
    match t with
    | .uint bits => match sUint bits s with
      | (.error e, s) => (.u 0, some e, s)
      | (.ok n, s) => (.u n, none, s)
    | .int bits => decInt bits s
    | .bool => match sUint 8 s with
      | (.error e, s) => (.b false, some e, s)
      | (.ok 0, s) => (.b false, none, s)
      | (.ok 1, s) => (.b true, none, s)
      | (.ok _, s) => (.b false, some .badBool, s)
    | .bigptr => decBigPtr s
    | .bigval => decBigVal s
    | .bytes => decBytesLike s
    | .string => decBytesLike s
    | .bytearr n => decByteArr n s
    | .time => decTime s
    | .map20 => decMap s
    | .slice e =>
      match sList s with
      | (.error e, s) => (.list [], some e, s)
      | (.ok sz, s) =>
        if sz = 0 then
          let (e, s) := sListEnd s
          (.list [], e, s)
        else match decElems (decV env f e) (s.rest.length + 2) [] s with
          | (v, some e, s) => (v, some e, s)
          | (v, none, s) =>
            let (e, s) := sListEnd s
            (v, e, s)
    | .arr n e =>
      let z := zeroV env 64 e
      match sList s with
      | (.error er, s) => (.list (List.replicate n z), some er, s)
      | (.ok _, s) =>
        match decArrElems (decV env f e) z n [] s with
        | (v, some er, s) => (v, some er, s)
        | (v, none, s) =>
          let (er, s) := sListEnd s
          (v, er, s)
    | .struct fs =>
      let zs : Val := .list (fs.map (zeroV env 64))
      match sList s with
      | (.error e, s) => (zs, some e, s)
      | (.ok sz, s) =>
        if sz = 0 then
          let (e, s) := sListEnd s
          (zs, e, s)
        else match decFields (decV env f) (zeroV env 64) fs [] s with
          | (v, some e, s) => (v, some e, s)
          | (v, none, s) =>
            let (e, s) := sListEnd s
            (v, e, s)
    | .ptr e =>
      match kindOf s with
      | ((_, _, some er), s) => (.nil, some er, { s with kind := none })
      | ((k, sz, none), s) =>
        if sz = 0 ∧ k ≠ .byte then (.nil, none, { s with kind := none })
        else match decV env f e s with
          | (v, none, s) => (.ptr v, none, s)
          | (_, some er, s) => (.nil, some er, s)
    | .cptr atomic e =>
      match decV env f e s with
      | (v, none, s) => (.ptr v, none, s)
      | (v, some er, s) => (.ptr (if atomic then zeroV env 64 e else v), some er, s)
    | .cval atomic e =>
      match decV env f e s with
      | (v, none, s) => (v, none, s)
      | (v, some er, s) => ((if atomic then zeroV env 64 e else v), some er, s)
    | .iface impl =>
      if atEnd s then (.nil, some .eol, s)
      else match readByte s with
        | (.error e, s) => (.nil, some e, s)
        | (.ok b0, s) =>
          if b0 = 0 then (.nil, none, s)
          else match readN 6 s with
            | (.error e, s) => (.nil, some e, s)
            | (.ok bs, s) =>
              match env.byDisfix? (b0 :: bs) with
              | none => (.nil, some .unknownPrefix, s)
              | some r =>
                -- fix 2f1154b: the prefix is looked up in the global registry; a type that is not assignable to the
                -- target interface is an error, reported before anything of the concrete value is read
                if !impl.contains r.idx then (.nil, some .unknownPrefix, s)
                else match r.ty with
                  | none => (.nil, some .unknownPrefix, s)
                  | some id =>
                    -- the error of the inner decoder is DROPPED (cdc.go: `info.decoder(s, crv)`), the half-built
                    -- object is stored
                    let (v, _, s) := decV env f (.ref id) s
                    (.iface r.idx v, none, s)
    | .ref id => match env.def? id with
      | some t' => decV env f t' s
      | none => (.nil, some .unsupported, s)
    | .split _ d => decV env f d s
    | .unsupported => (.nil, some .unsupported, s)

/-- DecodeBytes / DecodeBytesWithType (`pre` = the top-level type is a registered concrete type, so 7 bytes are skipped
    unchecked by consumeDisfix) -/
def decodeBytes (env : Env) (t : Ty) (pre : Bool) (b : Bytes) : Except Err Val :=
  let s : Stream := { rest := b }
  let fuel := 2 * b.length + 200
  let (e0, s) := if pre then (match readN 7 s with
      | (.error e, s) => (some e, s)
      | (.ok _, s) => (none, s)) else (none, s)
  match e0 with
  | some e => .error e
  | none =>
    match decV env fuel t s with
    | (_, some e, _) => .error e
    | (v, none, s) => if s.rest.isEmpty then .ok v else .error .moreThanOne

/-- how a reader entry point limits its stream -/
inductive Limit where
  | none                -- NewStream(r, 0), Decode(r, …), DecodeReader(r, …, 0) on a reader that is not a bytes/strings.Reader
  | some (n : Nat)      -- DecodeReader(r, …, n), n > 0
deriving Repr, Inhabited

/-- the runtime's bound on one allocation (linux/amd64: 2^48); `make([]byte, n)` beyond it panics -/
def maxAlloc : Nat := 2 ^ 48

/-- Decode / DecodeReader[WithType] on a reader holding `b`: no "more than one value" test; a limit below len(b) cuts the
    input, a limit above it lets the size checks pass and the reads hit EOF; the result carries the largest buffer size
    requested (`alloc`).  A request beyond `maxAlloc` is a run-time panic. -/
def decodeReader (env : Env) (t : Ty) (pre : Bool) (lim : Limit) (b : Bytes) : Except Err Val × Nat :=
  let s : Stream := match lim with
    | .none => { rest := b, unlimited := true }
    | .some n => if n ≤ b.length then { rest := b.take n } else { rest := b, phantom := n - b.length }
  let fuel := 2 * b.length + 200
  let (e0, s) := if pre then (match readN 7 s with
      | (.error e, s) => (some e, s)
      | (.ok _, s) => (none, s)) else (none, s)
  match e0 with
  | some e => (.error e, s.alloc)
  | none =>
    match decV env fuel t s with
    | (_, some e, s) => (if s.alloc > maxAlloc then .error .panic else .error e, s.alloc)
    | (v, none, s) => (if s.alloc > maxAlloc then .error .panic else .ok v, s.alloc)

/-- EncodeToBytes / EncodeToBytesWithType (`pre` = disfix of the top-level registered type, or []) -/
def encodeBytes (env : Env) (t : Ty) (pre : Bytes) (v : Val) : Except Err Bytes :=
  match encV env 1000 t v with
  | .error e => .error e
  | .ok b => .ok (pre ++ b)

end Model.Ser
