/-
Model of `types/vote_set.go` as it is: `NewVoteSet`, `AddVote`/`addVote`/`addVerifiedVote`, `SetPeerMaj23`,
`TwoThirdsMajority`, `HasTwoThirdsMajority`, `HasTwoThirdsAny`, `HasAll`, `IsCommit`, `MakeCommit`, the
bit-array views.  Core Lean only.  The threshold arithmetic is NOT hand-written: `Gen.CommitArith`
is translated from the expressions in the current Go source on every check.

`none` results stand for a Go panic (`cmn.PanicSanity` sites).
-/
import LinkVerif.Model.Vote
import LinkVerif.Gen.CommitArith

namespace Model.VoteSet
open Go Model.Vote Gen.CommitArith

/-- `blockVotes` -/
structure BlockVotes where
  peerMaj23 : Bool
  bits : List Bool
  votes : List (Option Vote)
  sum : Int
deriving Repr, DecidableEq, Inhabited

def newBlockVotes (peerMaj23 : Bool) (n : Nat) : BlockVotes :=
  { peerMaj23 := peerMaj23, bits := List.replicate n false, votes := List.replicate n none, sum := 0 }

/-- `blockVotes.addVerifiedVote` -/
def BlockVotes.add (bv : BlockVotes) (v : Vote) (i : Nat) (power : Int) : BlockVotes :=
  match bv.votes.getD i none with
  | some _ => bv
  | none => { bv with bits := bv.bits.set i true, votes := bv.votes.set i (some v), sum := wrapI64 (bv.sum + power) }

/-- `VoteSet`; `byBlock` is the map `votesByBlock` (keyed by `BlockID.Key()`), `peers` is `peerMaj23s` -/
structure VS where
  chain : List UInt8
  height : Nat
  round : Int
  type : Nat
  vals : List Val
  bits : List Bool
  votes : List (Option Vote)
  sum : Int
  maj23 : Option BlockID
  byBlock : List (BlockID × BlockVotes)
  peers : List (List UInt8 × BlockID)
deriving Repr, DecidableEq, Inhabited

/-- `NewVoteSet` (`none`: height 0 panics) -/
def newVS (chain : List UInt8) (height : Nat) (round : Int) (type : Nat) (vals : List Val) : Option VS :=
  if height = 0 then none
  else some { chain := chain, height := height, round := round, type := type, vals := vals,
              bits := List.replicate vals.length false, votes := List.replicate vals.length none,
              sum := 0, maj23 := none, byBlock := [], peers := [] }

def lookup (bb : List (BlockID × BlockVotes)) (k : BlockID) : Option BlockVotes :=
  match bb with
  | [] => none
  | (k', bv) :: rest => if k' = k then some bv else lookup rest k

/-- `votesByBlock[k] = bv` -/
def upsert (bb : List (BlockID × BlockVotes)) (k : BlockID) (bv : BlockVotes) : List (BlockID × BlockVotes) :=
  match bb with
  | [] => [(k, bv)]
  | (k', bv') :: rest => if k' = k then (k, bv) :: rest else (k', bv') :: upsert rest k bv

inductive AddErr where
  | none | index | address | size | step | nondet | sig
  | conflict (a b : Vote)
deriving Repr, DecidableEq, Inhabited

structure AddRes where
  st : VS
  added : Bool
  err : AddErr
deriving Repr, DecidableEq, Inhabited

/-- the copy loop after a quorum: `for i, vote := range votesByBlock.votes { if vote != nil { voteSet.votes[i] = vote } }` -/
def overlay : List (Option Vote) → List (Option Vote) → List (Option Vote)
  | a :: as, b :: bs => (match b with | some x => some x | none => a) :: overlay as bs
  | as, [] => as
  | [], _ :: _ => []

/-- the tail of `addVerifiedVote`: add to the block's votes, detect the first quorum crossing -/
def tally (s : VS) (v : Vote) (i : Nat) (power : Int) (bv : BlockVotes) : VS :=
  let origSum := bv.sum
  let qr := quorum (totalPower s.vals)
  let bv' := bv.add v i power
  let s2 := { s with byBlock := upsert s.byBlock v.bid bv' }
  if crossedQuorum origSum qr bv'.sum && s2.maj23.isNone then
    { s2 with maj23 := some v.bid, votes := overlay s2.votes bv'.votes }
  else s2

/-- `addVerifiedVote`: `(state, added, conflicting)`; `none` = `PanicSanity("addVerifiedVote does not expect duplicate votes")` -/
def addVerifiedVote (s : VS) (v : Vote) (i : Nat) (power : Int) : Option (VS × Bool × Option Vote) :=
  let stage1 : Option (VS × Option Vote) :=
    match s.votes.getD i none with
    | some ex =>
      if ex.bid = v.bid then none
      else if s.maj23 = some v.bid then
        some ({ s with votes := s.votes.set i (some v), bits := s.bits.set i true }, some ex)
      else some (s, some ex)
    | none =>
      some ({ s with votes := s.votes.set i (some v), bits := s.bits.set i true, sum := wrapI64 (s.sum + power) }, none)
  match stage1 with
  | none => none
  | some (s1, conflicting) =>
    match lookup s1.byBlock v.bid with
    | some bv =>
      if conflicting.isSome && !bv.peerMaj23 then some (s1, false, conflicting)
      else some (tally s1 v i power bv, true, conflicting)
    | none =>
      if conflicting.isSome then some (s1, false, conflicting)
      else some (tally s1 v i power (newBlockVotes false s.vals.length), true, conflicting)

/-- `getVote(valIndex, blockKey)` -/
def getVote (s : VS) (i : Nat) (k : BlockID) : Option Vote :=
  let byBlock : Option Vote := match lookup s.byBlock k with | some bv => bv.votes.getD i none | none => none
  match s.votes.getD i none with
  | some ex => if ex.bid = k then some ex else byBlock
  | none => byBlock

/-- `addVote` (the vote is non-nil).  `none` = Go panics. -/
def addVote (verify : Verify) (s : VS) (v : Vote) : Option AddRes :=
  if v.idx < 0 then some ⟨s, false, .index⟩
  else if v.addr.isEmpty then some ⟨s, false, .address⟩
  else if v.size ≠ (s.vals.length : Int) then some ⟨s, false, .size⟩
  else if v.height ≠ s.height ∨ v.round ≠ s.round ∨ v.type ≠ s.type then some ⟨s, false, .step⟩
  else
    let i := v.idx.toNat
    match s.vals[i]? with
    | none => some ⟨s, false, .index⟩
    | some val =>
      if v.addr ≠ val.addr then some ⟨s, false, .address⟩
      else
        match getVote s i v.bid with
        | some ex => if ex.sig = v.sig then some ⟨s, false, .none⟩ else some ⟨s, false, .nondet⟩
        | none =>
          -- `vote.Verify(chainID, val.PubKey)`
          if val.kaddr ≠ v.addr then some ⟨s, false, .address⟩
          else if !verify val.key (msgOf s.chain v) v.sig then some ⟨s, false, .sig⟩
          else
            match addVerifiedVote s v i val.power with
            | none => none
            | some (s', added, some c) => some ⟨s', added, .conflict c v⟩
            | some (s', added, none) => if added then some ⟨s', true, .none⟩ else none

/-- `SetPeerMaj23`: the Boolean is "returned an error" (conflicting claim of the same peer) -/
def setPeerMaj23 (s : VS) (peer : List UInt8) (bid : BlockID) : VS × Bool :=
  match s.peers.find? (fun p => p.1 = peer) with
  | some (_, ex) => (s, decide (ex ≠ bid))
  | none =>
    let s1 := { s with peers := s.peers ++ [(peer, bid)] }
    match lookup s1.byBlock bid with
    | some bv =>
      if bv.peerMaj23 then (s1, false)
      else ({ s1 with byBlock := upsert s1.byBlock bid { bv with peerMaj23 := true } }, false)
    | none => ({ s1 with byBlock := upsert s1.byBlock bid (newBlockVotes true s.vals.length) }, false)

def twoThirdsMajority (s : VS) : Option BlockID := s.maj23
def hasTwoThirdsMajority (s : VS) : Bool := s.maj23.isSome
def isCommit (s : VS) : Bool := decide (s.type = typePrecommit) && s.maj23.isSome
def hasTwoThirdsAny' (s : VS) : Bool := hasTwoThirdsAny s.sum (totalPower s.vals)
def hasAll' (s : VS) : Bool := hasAll s.sum (totalPower s.vals)
def bitArrayByBlockID (s : VS) (k : BlockID) : Option (List Bool) := (lookup s.byBlock k).map (·.bits)

/-- `Commit` (`types/block.go`) -/
structure Commit where
  bid : BlockID
  precommits : List (Option Vote)
deriving Repr, DecidableEq, Inhabited

/-- `MakeCommit` (`none`: not a precommit set, or no +2/3 block: panics) -/
def makeCommit (s : VS) : Option Commit :=
  if s.type ≠ typePrecommit then none
  else match s.maj23 with
    | none => none
    | some b => some { bid := b, precommits := s.votes }

end Model.VoteSet
