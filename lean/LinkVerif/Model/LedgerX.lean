/-
Extended observation for the ledger model (C06 / C07): the addresses a contract can pay that `Model.Ledger.St` does not
carry (the value-moving test contract, two addresses that do not exist at genesis, every address a creation transaction
aims at; token balances of the zero address + test contract and of those), and the value movements of contract
transactions as lists of primitive moves (app/state_transition.go transitInputs/transitOutputs: Createout, Cout;
vm/evm: Create endowment, CALL with value, TRANSFERTOKEN, SELFDESTRUCT).  The ledger model does not execute contracts:
whether a contract transaction succeeded and what gas it used are inputs (`st=`, `used=`, from a dry run); WHERE the value
goes on success is predicted here.  `burn` is the one designed destruction: SELFDESTRUCT in favour of the contract itself.
Core Lean only; nothing of Model.Ledger is changed.
-/
import LinkVerif.Model.Ledger

namespace Model.Ledger

/-- `xb` native: [Mover, beneficiary 0, beneficiary 1, created 0, created 1, …]; `xt` token: [zero address + test contract,
Mover, beneficiary 0, beneficiary 1]; `rx`: per `xb` bucket, what the application's balance records of the current block
show in excess of the state (the holdings a self-favouring SELFDESTRUCT destroyed) -/
structure XS where
  xb : List Int := [0, 0, 0]
  xt : List Int := [0, 0, 0, 0]
  rx : List Int := [0, 0, 0]
  /-- `xb` buckets a SELFDESTRUCT of the block being executed has destroyed: the state object lingers (with its code) until the
  end of the block, where it is deleted with whatever it then holds (app/state_processor.go Process: no Finalise between the
  transactions of a block; state/statedb.go Finalise deletes suicided objects) -/
  killed : List Nat := []
  /-- real genesis (system contracts): `yw` the award payees' balances in WEI (candidate coinbases, then their supporters);
  `fw` what the foundation contract has paid out in awards so far, in WEI.  Awards are not whole commitment units, so this part
  of the observation is kept in wei: the foundation's balance is `found · 10^10 − fw` -/
  yw : List Int := []
  fw : Int := 0
  /-- TOKEN confidential pool: per token wallet the outputs it owns, amounts in units of the TOKEN's own commitment unit `tunit`
  (base units per hidden unit: 10^(decimals−8), what the node derives from the token contract's decimals()); output ids (= key
  images) are `tokBase + n`: the key-image set of the chain is ONE set for all tokens (utxo/store.go SaveKImages /
  HaveTxKeyimgAsSpent key the image alone), only the output sequences are per token -/
  tw : List (List Out) := []
  tnext : Nat := 0
  tunit : Int := 10000000000
deriving Repr, Inhabited

inductive Bk where
  | acct (i : Nat)
  | zero
  | x (k : Nat)
deriving Repr, DecidableEq, Inhabited

inductive Prim where
  /-- move `amt` (`none`: everything `src` holds) of the native coin (`tok = false`) or of the token from `src` to `dst` -/
  | move (tok : Bool) (src dst : Bk) (amt : Option Int)
  /-- the native holdings of the bucket are destroyed -/
  | burn (b : Bk)
  /-- the bucket's contract executed SELFDESTRUCT: it is deleted at the end of the block -/
  | kill (b : Bk)
  /-- the foundation contract pays payee `k` an award of `wei` out of its own balance (app/app.go AllocAward →
  contract/v1/foundation allocAward: TC_Transfer; the amount is an input, the model does not execute WASM) -/
  | award (k : Nat) (wei : Int)
  /-- account `i` moves `units` hidden units of the token into the pool: a new output of token wallet `w` -/
  | tokIn (i w : Nat) (units : Int)
  /-- the token output `oid` is spent: new outputs `(wallet, units)`, and optionally an account output `(account, units, credit)`
  where `credit` is what the account's token balance grows by, in 10^10 base units (the honest value is `tok10 units`: the
  commitment equation of `checkCommitEqual` must use the TOKEN's unit for the account side) -/
  | tokSpend (oid : Nat) (outs : List (Nat × Int)) (aout : Option (Nat × Int × Int))
  /-- account `i` pays `u` units of fee; the foundation's credit is booked by the ledger itself (`execTx`: `fees_match`) -/
  | fee (i : Nat) (u : Int)
deriving Repr, Inhabited

def getBk (s : St) (x : XS) (tok : Bool) : Bk → Int
  | .acct i => if tok then geti s.tok i else geti s.bal i
  | .zero => if tok then geti x.xt 0 else s.zero
  | .x k => if tok then geti x.xt (k + 1) else geti x.xb k

/-- committed and speculative balances move together: these movements are booked when a block is committed -/
def addBk (s : St) (x : XS) (tok : Bool) (b : Bk) (d : Int) : St × XS :=
  match b, tok with
  | .acct i, false => ({ s with bal := addAt s.bal i d, sbal := addAt s.sbal i d }, x)
  | .acct i, true => ({ s with tok := addAt s.tok i d, stok := addAt s.stok i d }, x)
  | .zero, false => ({ s with zero := s.zero + d }, x)
  | .zero, true => (s, { x with xt := addAt x.xt 0 d })
  | .x k, false => (s, { x with xb := addAt x.xb k d })
  | .x k, true => (s, { x with xt := addAt x.xt (k + 1) d })

def tokBase : Nat := 1000000000

/-- hidden units of the token in 10^10 base units (the unit the account side of the model is kept in) -/
def tok10 (x : XS) (units : Int) : Int := units * x.tunit / 10000000000

def addTokOuts (x : XS) (outs : List (Nat × Int)) : XS :=
  outs.foldl (fun x (w, v) =>
    { x with tw := x.tw.modify w (· ++ [{ id := tokBase + x.tnext, amount := v, spent := false }]), tnext := x.tnext + 1 }) x

def applyPrim (sx : St × XS) : Prim → St × XS
  | .move tok src dst amt =>
    let v := match amt with | some v => v | none => getBk sx.1 sx.2 tok src
    let r := addBk sx.1 sx.2 tok src (-v)
    addBk r.1 r.2 tok dst v
  | .burn b =>
    let v := getBk sx.1 sx.2 false b
    let r := addBk sx.1 sx.2 false b (-v)
    match b with
    | .x k => (r.1, { r.2 with rx := addAt r.2.rx k v })
    | _ => r
  | .kill b =>
    match b with
    | .x k => (sx.1, { sx.2 with killed := sx.2.killed ++ [k] })
    | _ => sx
  | .award k wei => (sx.1, { sx.2 with yw := addAt sx.2.yw k wei, fw := sx.2.fw + wei })
  | .tokIn i w units =>
    let d := tok10 sx.2 units
    ({ sx.1 with tok := addAt sx.1.tok i (-d), stok := addAt sx.1.stok i (-d) }, addTokOuts sx.2 [(w, units)])
  | .tokSpend oid outs aout =>
    let x1 := addTokOuts { sx.2 with tw := markSpent sx.2.tw oid } outs
    match aout with
    | some (a, _, credit) => ({ sx.1 with tok := addAt sx.1.tok a credit, stok := addAt sx.1.stok a credit }, x1)
    | none => (sx.1, x1)
  | .fee i u => ({ sx.1 with bal := addAt sx.1.bal i (-u), sbal := addAt sx.1.sbal i (-u) }, sx.2)

def applyPrims (sx : St × XS) (ps : List Prim) : St × XS := ps.foldl applyPrim sx

/-- end of the block: every object destroyed in it is deleted with what it holds by then — what a LATER transaction of the same
block paid it is gone (the code as it is: known finding pay-selfdestructed-same-block); the balance records keep the credit (`rx`) -/
def endBlock (sx : St × XS) : St × XS :=
  let r := sx.2.killed.foldl (fun acc k => applyPrim acc (.burn (.x k))) sx
  (r.1, { r.2 with killed := [] })

/-- a committed block: the movements of its successful contract transactions in order, then the end of the block -/
def applyBlock (sx : St × XS) (txs : List (List Prim)) : St × XS := endBlock (txs.foldl applyPrims sx)

/-- total native / token value over everything observed -/
def nativeTotal (s : St) (x : XS) : Int := supply s + x.xb.sum
def tokenTotal (s : St) (x : XS) : Int := tokSupply s + x.xt.sum

/-- the token pool in hidden units, and the token total over everything observed, pool included (10^10 base units) -/
def tokPool (x : XS) : Int := (x.tw.map (fun outs => ((outs.filter (!·.spent)).map (·.amount)).sum)).sum
def tokenTotalX (s : St) (x : XS) : Int := tokenTotal s x + tok10 x (tokPool x)

/-- one commitment unit in wei -/
def unitWei : Int := 10000000000

/-- total native value over everything observed, in wei, payees of awards included -/
def nativeTotalWei (s : St) (x : XS) : Int := nativeTotal s x * unitWei - x.fw + x.yw.sum

/-- the foundation contract's balance in wei: the fees credited to it minus the awards it has paid -/
def foundationWei (s : St) (x : XS) : Int := s.found * unitWei - x.fw

end Model.Ledger
