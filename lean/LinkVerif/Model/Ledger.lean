/-
Ledger model for C06 / C07: what the application does to balances, nonces, the confidential pool and the spent
key-image set when it admits transactions and executes blocks (app/state_transition.go, app/state_processor.go,
types/transaction.go CheckState, types/tx_type_txt.go CheckState, types/tx_utxo.go CheckBasic/checkState).
Amounts are in commitment units (10^10 wei).  RingCT proof verification is the ideal functionality of the stub
library: a transaction built by the constructors verifies; one altered afterwards does not.  The model mirrors the
code as it is — including the short-ring path, in which nothing ties the declared input amount to the spent output.
Core Lean only.
-/
namespace Model.Ledger

/-- `types.CalNewAmountGas(value, EverLiankeFee)` in gas: 5·10^4 per started 10^18 wei (10^8 units), clamped to [5·10^5, 5·10^9] -/
def calGas (amountUnits : Int) : Int :=
  let count := (amountUnits + 99999999) / 100000000
  let g := 50000 * count
  if g < 500000 then 500000 else if g > 5000000000 then 5000000000 else g

/-- gas → fee in units (ParGasPrice = 10^11 wei = 10 units per gas) -/
def feeOfGas (g : Int) : Int := 10 * g
def utxoGas : Int := 500000000

inductive Kind where | xfer | xfertok | ain | uin
deriving Repr, DecidableEq, Inhabited

structure Out where
  id : Nat
  amount : Int
  spent : Bool
deriving Repr, DecidableEq, Inhabited

structure TxRec where
  kind : Kind
  from_ : Nat := 0          -- account index (xfer, xfertok, ain)
  to : Nat := 0             -- account index (xfer, xfertok) / wallet index (ain)
  amount : Int := 0
  nonce : Nat := 0
  gas : Int := 0            -- gas the tx pays for (limit for account txs, Fee/price for confidential ones)
  -- confidential-input txs
  spends : Nat := 0         -- id of the output spent
  outs : List (Nat × Int) := []      -- confidential outputs (wallet, amount), in output order
  aout : Option (Nat × Int) := none  -- account output
  broken : Option String := none     -- class of the alteration after construction, if any
deriving Repr, Inhabited

structure St where
  bal : List Int := []
  tok : List Int := []
  found : Int := 0
  zero : Int := 0
  nonce : List Nat := []
  sbal : List Int := []       -- speculative state of the mempool (app.checkTxState): debits only
  stok : List Int := []
  snonce : List Nat := []
  wallets : List (List Out) := []
  spentImgs : List Nat := []  -- key images committed to the chain (by output id)
  poolImgs : List Nat := []   -- key images of pending transactions (mempool cache)
  txs : List TxRec := []
  pending : List Nat := []
  height : Nat := 0
  nextOut : Nat := 0
  blocks : List (List Nat) := []     -- txs of each committed block (latest last)
deriving Repr, Inhabited

def geti (xs : List Int) (i : Nat) : Int := xs.getD i 0
def getn (xs : List Nat) (i : Nat) : Nat := xs.getD i 0
def addAt (xs : List Int) (i : Nat) (d : Int) : List Int := xs.modify i (· + d)
def setN (xs : List Nat) (i : Nat) (v : Nat) : List Nat := xs.set i v

def init (accts wallets : Nat) (bal tbal : Int) : St :=
  { bal := List.replicate accts bal, tok := List.replicate accts tbal, nonce := List.replicate accts 0,
    sbal := List.replicate accts bal, stok := List.replicate accts tbal, snonce := List.replicate accts 0,
    wallets := List.replicate wallets [] }

/-- the mempool's state check (`CheckTx(tx, false)` on the speculative state); returns the class and the new state -/
def checkState (s : St) (id : Nat) (t : TxRec) : String × St :=
  match t.kind with
  | .xfer | .xfertok | .ain =>
    let n := getn s.snonce t.from_
    if n > t.nonce then ("nonce-low", s)
    else if n < t.nonce then ("nonce-high", s)
    else
      let fee := feeOfGas t.gas
      match t.kind with
      | .xfertok =>
        if geti s.stok t.from_ < t.amount ∨ geti s.sbal t.from_ < fee then ("funds", s)
        else ("ok", { s with sbal := addAt s.sbal t.from_ (-fee), stok := addAt s.stok t.from_ (-t.amount),
                             snonce := setN s.snonce t.from_ (t.nonce + 1), pending := s.pending ++ [id] })
      | _ =>
        let cost := t.amount + fee
        if geti s.sbal t.from_ < cost then ("funds", s)
        else ("ok", { s with sbal := addAt s.sbal t.from_ (-cost), snonce := setN s.snonce t.from_ (t.nonce + 1),
                             pending := s.pending ++ [id] })
  | .uin =>
    if s.spentImgs.contains t.spends then ("double-spend", s)
    else if s.poolImgs.contains t.spends then ("double-spend", s)
    else ("ok", { s with poolImgs := s.poolImgs ++ [t.spends], pending := s.pending ++ [id] })

/-- full admission: `CheckTx(tx, true)` (basic: semantic, commitments, proofs) then the state check -/
def admitTx (s : St) (id : Nat) (t : TxRec) : String × St :=
  match t.broken with
  | some cls => (cls, s)
  | none => checkState s id t

/-- effect of one executed transaction on the committed ledger (all fees are credited at block level) -/
def applyTx (s : St) (t : TxRec) : St :=
  let fee := feeOfGas t.gas
  match t.kind with
  | .xfer =>
    let b := addAt s.bal t.from_ (-(t.amount + fee))
    { s with bal := addAt b t.to t.amount, nonce := setN s.nonce t.from_ (t.nonce + 1) }
  | .xfertok =>
    let k := addAt s.tok t.from_ (-t.amount)
    { s with bal := addAt s.bal t.from_ (-fee), tok := addAt k t.to t.amount, nonce := setN s.nonce t.from_ (t.nonce + 1) }
  | .ain =>
    { s with bal := addAt s.bal t.from_ (-(t.amount + fee)), nonce := setN s.nonce t.from_ (t.nonce + 1) }
  | .uin =>
    match t.aout with
    | some (a, v) => { s with bal := addAt s.bal a v }
    | none => s

def markSpent (ws : List (List Out)) (oid : Nat) : List (List Out) :=
  ws.map (fun outs => outs.map (fun o => if o.id = oid then { o with spent := true } else o))

/-- the confidential outputs a committed transaction creates, recorded by their owners in (wallet, output) scan order -/
def newOuts (t : TxRec) : List (Nat × Int) :=
  match t.kind with
  | .ain => [(t.to, t.amount)]
  | .uin => t.outs
  | _ => []

def addOuts (s : St) (t : TxRec) : St :=
  let created := newOuts t
  -- every created output gets an id in output order
  let ids := List.range created.length |>.map (· + s.nextOut)
  let tagged := created.zip ids
  let ws := s.wallets.zipIdx.map (fun (outs, w) =>
    outs ++ (tagged.filter (fun ((w', _), _) => w' = w)).map (fun ((_, v), i) => { id := i, amount := v, spent := false }))
  { s with wallets := ws, nextOut := s.nextOut + created.length }

/-- one executed transaction: ledger effect, fee credited to the foundation (the code credits the block's total gas
at the end of the block: same sum), the spent output and its key image, the created outputs -/
def execTx (s : St) (t : TxRec) : St :=
  let s := applyTx s t
  let s := { s with found := s.found + feeOfGas t.gas }
  let s := if t.kind = .uin then { s with wallets := markSpent s.wallets t.spends, spentImgs := s.spentImgs ++ [t.spends] } else s
  addOuts s t

/-- what `processBlock` checks per transaction before executing it (state_processor.go checkValid + preTransit):
exact nonce and funds for account inputs; for confidential inputs the key image is neither committed nor already in this
block; on the validator path also the basic check (commitments, proofs) for transactions not in the mempool cache -/
def txValid (s : St) (seen : List Nat) (t : TxRec) : Bool :=
  match t.kind with
  | .xfer | .ain => getn s.nonce t.from_ == t.nonce && decide (geti s.bal t.from_ ≥ t.amount + feeOfGas t.gas)
  | .xfertok => getn s.nonce t.from_ == t.nonce && decide (geti s.tok t.from_ ≥ t.amount) && decide (geti s.bal t.from_ ≥ feeOfGas t.gas)
  | .uin => !s.spentImgs.contains t.spends && !seen.contains t.spends

/-- execute a list of transactions as a block would: `none` if some transaction is invalid at its position -/
def execBlock (s : St) : List Nat → List TxRec → Option St
  | _, [] => some s
  | seen, t :: rest =>
    if txValid s seen t then execBlock (execTx s t) (if t.kind = .uin then t.spends :: seen else seen) rest else none

def finishBlock (s s' : St) (ids : List Nat) : St :=
  { s' with pending := s.pending.filter (fun i => !ids.contains i), poolImgs := [], sbal := s'.bal, stok := s'.tok, snonce := s'.nonce,
            height := s.height + 1, blocks := s.blocks ++ [ids] }

/-- `block`: reap everything pending and execute it in order (a block built from the mempool is valid: `none` never
happens for it — see Props.C15) -/
def block (s : St) : St :=
  let ids := s.pending
  let recs := ids.filterMap (fun i => s.txs[i]?)
  match execBlock s [] recs with
  | some s' => finishBlock s s' ids
  | none => s

/-- `forceblock`: a block with arbitrary earlier transactions (what a Byzantine proposer can assemble).
Result: the new state, or why no correct node commits it -/
def forceBlock (s : St) (ids : List Nat) : St × String :=
  let recs := ids.filterMap (fun i => s.txs[i]?)
  match execBlock s [] recs with
  | none => (s, "propose=panic")           -- execution-invalid: even the proposer's own pre-run fails
  | some s' =>
    if recs.any (fun t => t.broken.isSome) then (s, "validate=false")    -- proofs checked on the validator path
    else (finishBlock s s' ids, "ok")

/-- total native supply: accounts + foundation + zero address + unspent confidential outputs -/
def pool (s : St) : Int := (s.wallets.map (fun outs => ((outs.filter (!·.spent)).map (·.amount)).sum)).sum
def supply (s : St) : Int := s.bal.sum + s.found + s.zero + pool s
def tokSupply (s : St) : Int := s.tok.sum

end Model.Ledger
