/-
Model of consensus/ticker.go: the timeout ticker keeps ONE pending timeout `ti`; a newly scheduled timeout replaces it unless
it is for an older height / round / step (timeoutRoutine, the `continue` chain); when the timer runs out the pending timeout
is fired.  The node theorems (Props/C01Node*) assume `WellTimed`: the ticker fires only what the node scheduled, never an
older one after a newer one.  This file is the ticker's side of that assumption.
-/
namespace Model.Ticker

structure TI where
  h : Nat
  r : Int
  s : Nat
deriving DecidableEq, Repr, Inhabited

/-- `timeoutRoutine`: "ignore tickers for old height/round/step" -/
def stale (ti new : TI) : Bool :=
  decide (new.h < ti.h) ||
  (decide (new.h = ti.h) && (decide (new.r < ti.r) || (decide (new.r = ti.r) && decide (ti.s > 0 ∧ new.s ≤ ti.s))))

/-- one schedule: the pending timeout afterwards -/
def sched (ti new : TI) : TI := if stale ti new then ti else new

/-- the timeouts ACCEPTED (timer reset) out of a sequence of schedules, starting from pending `ti` -/
def accepted : TI → List TI → List TI
  | _, [] => []
  | ti, n :: ns => if stale ti n then accepted ti ns else n :: accepted n ns

/-- pending timeout after a burst of schedules -/
def pending (ti : TI) (ns : List TI) : TI := ns.foldl sched ti

/-- lexicographic order on (height, round, step) -/
def le (a b : TI) : Prop := a.h < b.h ∨ (a.h = b.h ∧ (a.r < b.r ∨ (a.r = b.r ∧ a.s ≤ b.s)))

/-- the zero value the routine starts from -/
def zero : TI := ⟨0, 0, 0⟩

end Model.Ticker
