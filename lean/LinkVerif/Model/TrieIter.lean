/-
Model of the iterator family of libs/trie/iterator.go over `Model.Trie`, at the level the harness observes it.  Core only.

  * `iterFrom`   NewIterator(NodeIterator(start)): `seek` walks to the first node whose hex path is >= the hex start key
                 (terminator dropped; `bytes.Compare`), so exactly the leaves with path >= start are delivered, in path order
  * `nodeWalk`   the node stream of NodeIterator(nil) after `Hash()`: pre-order, per node (Path, Hash, Parent);
                 Hash = cached hash = Keccak(enc) for the root and for nodes whose encoding is >= 32 bytes, empty otherwise;
                 Parent = hash of the nearest hashed ancestor; the empty trie delivers ONE node (the nil root)
  * `diffLeaves` leaves of NewDifferenceIterator(a, b): the pairs of b that a does not hold
  * `unionLeaves` leaves of NewUnionIterator([a, b]): both streams merged by (path, blob), identical leaves once
  * `hashedNodes` the distinct node hashes reachable from the root (what a reopened trie loads from the database)
  * `leafStores` how often Commit's `onleaf` callback fires when every node is dirty (first commit of a fresh trie):
                 once per STORED (root or >= 32 bytes) short node whose child is a value
-/
import LinkVerif.Model.Trie

namespace Model.Trie

/-- `bytes.Compare(a, b) < 0` on hex paths -/
def nibLt : List Nib → List Nib → Bool
  | [], [] => false
  | [], _ :: _ => true
  | _ :: _, [] => false
  | a :: as, b :: bs => a.val < b.val || (a == b && nibLt as bs)

def bytesLtB : Bytes → Bytes → Bool
  | [], [] => false
  | [], _ :: _ => true
  | _ :: _, [] => false
  | a :: as, b :: bs => a < b || (a == b && bytesLtB as bs)

def seekKey (start : Bytes) : List Nib := (keybytesToHex start).dropLast

def iterFrom (n : Node) (start : Bytes) : List (List Nib × Bytes) :=
  (toMap n).filter (fun kv => !(nibLt kv.1 (seekKey start)))

def nodeHash (H : Bytes → Bytes) (isRoot : Bool) (n : Node) : Bytes :=
  let e := enc H n
  if isRoot || e.length ≥ 32 then H e else []

def walk (H : Bytes → Bytes) : Bool → Node → List Nib → Bytes → List (List Nib × Bytes × Bytes)
  | _, .nil, _, _ => []
  | _, .value _, p, par => [(p, [], par)]
  | r, .short k c, p, par =>
    let h := nodeHash H r (.short k c)
    (p, h, par) :: walk H false c (p ++ k) (if h.isEmpty then par else h)
  | r, .full c, p, par =>
    let h := nodeHash H r (.full c)
    (p, h, par) :: (List.finRange 17).flatMap (fun i => walk H false (c i) (p ++ [i]) (if h.isEmpty then par else h))

def nodeWalk (H : Bytes → Bytes) (n : Node) : List (List Nib × Bytes × Bytes) :=
  match n with
  | .nil => [([], [], [])]
  | _ => walk H true n [] []

def hashedNodes (H : Bytes → Bytes) (n : Node) : List Bytes :=
  ((nodeWalk H n).filterMap (fun x => if x.2.1.isEmpty then none else some x.2.1)).eraseDups

def leafStoresAux (H : Bytes → Bytes) : Bool → Node → Nat
  | _, .nil => 0
  | _, .value _ => 0
  | r, .short k c =>
    (if c.isValue && (r || (enc H (.short k c)).length ≥ 32) then 1 else 0) + leafStoresAux H false c
  | _, .full c => ((List.finRange 17).map (fun i => leafStoresAux H false (c i))).sum

def leafStores (H : Bytes → Bytes) (n : Node) : Nat := leafStoresAux H true n

def diffLeaves (a b : Node) : List (List Nib × Bytes) :=
  (toMap b).filter (fun kv => !(get a kv.1 == some kv.2))

def kvLt (x y : List Nib × Bytes) : Bool := nibLt x.1 y.1 || (x.1 == y.1 && bytesLtB x.2 y.2)

def mergeKV : Nat → List (List Nib × Bytes) → List (List Nib × Bytes) → List (List Nib × Bytes)
  | 0, xs, ys => xs ++ ys
  | _, [], ys => ys
  | _, xs, [] => xs
  | f + 1, x :: xs, y :: ys =>
    if kvLt x y then x :: mergeKV f xs (y :: ys)
    else if kvLt y x then y :: mergeKV f (x :: xs) ys
    else x :: mergeKV f xs ys

def unionLeaves (a b : Node) : List (List Nib × Bytes) :=
  mergeKV ((toMap a).length + (toMap b).length) (toMap a) (toMap b)

end Model.Trie
