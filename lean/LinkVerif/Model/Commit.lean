/-
Model of `ValidatorSet.VerifyCommit` (`types/validator_set.go`) and the `Commit` helpers of
`types/block.go` (`FirstPrecommit`, `Height`, `Round`, `Size`, `IsCommit`, `BitArray`, `ValidateBasic`).
Core Lean only.  The accept test is the T1 translation `Gen.CommitArith.verifyCommitAccepts`.
-/
import LinkVerif.Model.VoteSet

namespace Model.Commit
open Go Model.Vote Model.VoteSet Gen.CommitArith

/-- first non-nil precommit -/
def firstSome : List (Option Vote) → Option Vote
  | [] => none
  | some v :: _ => some v
  | none :: rest => firstSome rest

/-- `Commit.Height()`: 0 for an empty commit, the height of the first non-nil precommit, 0 if all are nil -/
def height (c : Commit) : Nat := match firstSome c.precommits with | some v => v.height | none => 0
/-- `Commit.Round()` -/
def round (c : Commit) : Int := match firstSome c.precommits with | some v => v.round | none => 0
def size (c : Commit) : Nat := c.precommits.length
def isCommit (c : Commit) : Bool := !c.precommits.isEmpty
def bitArray (c : Commit) : List Bool := c.precommits.map Option.isSome

inductive BasicErr where
  | ok | zeroBlock | empty | type | height | round
deriving Repr, DecidableEq, Inhabited

def basicLoop (h : Nat) (r : Int) : List (Option Vote) → BasicErr
  | [] => .ok
  | none :: rest => basicLoop h r rest
  | some v :: rest =>
    if v.type ≠ typePrecommit then .type
    else if v.height ≠ h then .height
    else if v.round ≠ r then .round
    else basicLoop h r rest

/-- `Commit.ValidateBasic` -/
def validateBasic (c : Commit) : BasicErr :=
  if c.bid.isZero then .zeroBlock
  else if c.precommits.isEmpty then .empty
  else basicLoop (height c) (round c) c.precommits

inductive VErr where
  | size | height | round | type | sig | power
deriving Repr, DecidableEq, Inhabited

/-- the slot loop of `VerifyCommit`: tallied power or the first error, in slot order -/
def tallyLoop (verify : Verify) (chain : List UInt8) (bid : BlockID) (h : Nat) (r : Int) :
    List Val → List (Option Vote) → Int → Except VErr Int
  | val :: vals, some v :: ps, acc =>
    if v.height ≠ h then .error .height
    else if v.round ≠ r then .error .round
    else if v.type ≠ typePrecommit then .error .type
    else if !verify val.key (msgOf chain v) v.sig then .error .sig
    else if bid ≠ v.bid then tallyLoop verify chain bid h r vals ps acc
    else tallyLoop verify chain bid h r vals ps (wrapI64 (acc + val.power))
  | _ :: vals, none :: ps, acc => tallyLoop verify chain bid h r vals ps acc
  | _, _, acc => .ok acc

/-- `ValidatorSet.VerifyCommit(chainID, blockID, height, commit)` for a non-nil commit -/
def verifyCommit (verify : Verify) (vals : List Val) (chain : List UInt8) (bid : BlockID) (h : Nat) (c : Commit) :
    Except VErr Unit :=
  if vals.length ≠ c.precommits.length then .error .size
  else if h ≠ height c then .error .height
  else
    match tallyLoop verify chain bid h (round c) vals c.precommits 0 with
    | .error e => .error e
    | .ok tallied => if verifyCommitAccepts tallied (totalPower vals) then .ok () else .error .power

/-- `ValidatorSet.GetByAddress` on a set sorted by distinct addresses: the validator with that address -/
def findByAddr (vals : List Val) (a : List UInt8) : Option Val := vals.find? (fun v => v.addr = a)

/-- the slot loop of `VerifyCommitAny` (after fix ddc1c92): the validator is looked up by the ADDRESS WRITTEN IN THE
PRECOMMIT (unknown addresses are skipped); `seen` remembers the validators already met (`seen[valIdx]`, keyed here by the
address, which identifies the validator in a set with distinct addresses) and is marked BEFORE the signature test; a
validator met again is skipped -/
def tallyLoopAny (verify : Verify) (chain : List UInt8) (bid : BlockID) (h : Nat) (r : Int) (vals : List Val) :
    List (Option Vote) → List (List UInt8) → Int → Except VErr Int
  | [], _, acc => .ok acc
  | none :: ps, seen, acc => tallyLoopAny verify chain bid h r vals ps seen acc
  | some v :: ps, seen, acc =>
    if v.height ≠ h then .error .height
    else if v.round ≠ r then .error .round
    else if v.type ≠ typePrecommit then .error .type
    else match findByAddr vals v.addr with
      | none => tallyLoopAny verify chain bid h r vals ps seen acc
      | some val =>
        if seen.contains v.addr then tallyLoopAny verify chain bid h r vals ps seen acc
        else if !verify val.key (msgOf chain v) v.sig then .error .sig
        else if bid ≠ v.bid then tallyLoopAny verify chain bid h r vals ps (v.addr :: seen) acc
        else tallyLoopAny verify chain bid h r vals ps (v.addr :: seen) (wrapI64 (acc + val.power))

/-- `ValidatorSet.VerifyCommitAny` (no caller in the tree; exported) -/
def verifyCommitAny (verify : Verify) (vals : List Val) (chain : List UInt8) (bid : BlockID) (h : Nat) (c : Commit) :
    Except VErr Unit :=
  if vals.length ≠ c.precommits.length then .error .size
  else if h ≠ height c then .error .height
  else
    match tallyLoopAny verify chain bid h (round c) vals c.precommits [] 0 with
    | .error e => .error e
    | .ok tallied => if verifyCommitAccepts tallied (totalPower vals) then .ok () else .error .power

/-- `reconstructLastCommit` (consensus/state.go): after a restart the last commit is rebuilt by feeding the stored seen
commit's precommits to a fresh precommit vote set of the LAST validators; `none` = the node panics (a vote that is not
added, or no +2/3 at the end), `some none` = nothing to rebuild at height 0 -/
def feedAll (verify : Verify) : VS → List (Option Vote) → Option VS
  | s, [] => some s
  | s, none :: ps => feedAll verify s ps
  | s, some v :: ps =>
    match addVote verify s v with
    | some r => if r.added && decide (r.err = AddErr.none) then feedAll verify r.st ps else none
    | none => none

def reconstruct (verify : Verify) (chain : List UInt8) (h : Nat) (vals : List Val) (seen : Option Commit) : Option (Option VS) :=
  if h = 0 then some none
  else match seen with
    | none => none                       -- nil commit: `seenCommit.Round()` dereferences it
    | some c =>
      match newVS chain h (round c) typePrecommit vals with
      | none => none
      | some s0 =>
        match feedAll verify s0 c.precommits with
        | none => none
        | some s => if hasTwoThirdsMajority s then some (some s) else none

/-! ## Fast sync (`blockchain/reactor.go` poolRoutine + `blockchain/pool.go`), one serving peer

The node asks the peer for the heights up to the height the peer announced, and applies height `h` when it holds block `h`
and block `h+1` and `status.Validators.VerifyCommit(chainID, id of block h AS RECEIVED, h, block(h+1).LastCommit)` succeeds;
on an error it redoes both requests, which removes the (only) peer.  The last requested block can never be applied (its
commit travels in the next block).  `avail` = the block was served, decodable and within the announced range. -/

structure FsH where
  vals : List Val
  bid : BlockID
  avail : Bool
  /-- the commit for this height as carried by the NEXT served block (`none`: that block has a nil LastCommit) -/
  commit : Option Commit
deriving Repr, Inhabited

inductive FsStop where
  | caughtUp | missing | badCommit
deriving Repr, DecidableEq, Inhabited

/-- `(applied, why it stopped)`; `h` = the height of the head of the list; `complete` = the list ends at the height the peer
announced (otherwise the peer announced more than it serves) -/
def fsLoop (verify : Verify) (chain : List UInt8) (complete : Bool) : Nat → List FsH → Nat × FsStop
  | h, x :: y :: rest =>
    if !x.avail || !y.avail then (h - 1, .missing)
    else match x.commit with
      | none => (h - 1, .badCommit)        -- a served block without LastCommit is an invalid commit (fix f5d5bad; it was a nil dereference in poolRoutine, which has no recover)
      | some c =>
        match verifyCommit verify x.vals chain x.bid h c with
        | .ok _ => fsLoop verify chain complete (h + 1) (y :: rest)
        | .error _ => (h - 1, .badCommit)
  | h, [_] => (h - 1, if complete then .caughtUp else .missing)
  | h, [] => (h - 1, .caughtUp)

end Model.Commit
