/-
The frame configuration the C18 model runs with: the constants of libs/p2p/conn/secret_connection.go as the extractor
found them in the current tree (Gen.ConnFacts).  Core Lean only.
-/
import LinkVerif.Model.Conn
import LinkVerif.Gen.ConnFacts

namespace Model.Conn

def genCfg : FrameCfg :=
  { dataMaxSize := Gen.ConnFacts.dataMaxSize, frameCapacity := Gen.ConnFacts.frameCapacity, headerSize := Gen.ConnFacts.headerSize,
    leading := UInt8.ofNat (Gen.ConnFacts.leadingVersion ||| Gen.ConnFacts.leadingType),
    versionMask := UInt8.ofNat Gen.ConnFacts.versionMusk, version00 := UInt8.ofNat Gen.ConnFacts.version00,
    typeMask := UInt8.ofNat Gen.ConnFacts.typeMusk, typeCompress := UInt8.ofNat Gen.ConnFacts.typeCompress,
    typeEncrypt := UInt8.ofNat Gen.ConnFacts.typeEncrypt,
    unsealedDataSize := Gen.ConnFacts.dataMaxSize + Gen.ConnFacts.dataLenSize }

end Model.Conn
