/-
Executable model of node.go decodeNode / decodeShort / decodeFull / decodeRef, encoding.go compactToHex and the
libs/ser raw splitting functions they use (raw.go Split / SplitString / SplitList / CountValues / readKind / readSize).
Core Lean only.  Used by the driver for the malformed-proof stream (`rawverify`), where the database is built from
arbitrary bytes.  Defects are modelled as they are: `compactToHex` of an EMPTY compact key slices out of range (Go panic).
-/
import LinkVerif.Model.TrieProof

namespace Model.Trie

inductive Kind where
  | byte | string | list
deriving DecidableEq

/-- raw.go readSize -/
def readSize (b : Bytes) (slen : Nat) : Dec Nat :=
  if slen > b.length then .err
  else
    let s := (b.take slen).foldl (fun acc x => acc * 256 + x.toNat) 0
    if s < 56 || b.headD 0 == 0 then .err else .ok s

/-- raw.go readKind: (kind, tagsize, contentsize) -/
def readKind (buf : Bytes) : Dec (Kind × Nat × Nat) :=
  match buf with
  | [] => .err
  | b0 :: tl =>
    let b := b0.toNat
    let r : Dec (Kind × Nat × Nat) :=
      if b < 0x80 then .ok (.byte, 0, 1)
      else if b < 0xB8 then
        let cs := b - 0x80
        if cs == 1 && (match tl with | x :: _ => x.toNat < 128 | [] => false) then .err else .ok (.string, 1, cs)
      else if b < 0xC0 then do
        let cs ← readSize tl (b - 0xB7)
        pure (.string, b - 0xB7 + 1, cs)
      else if b < 0xF8 then .ok (.list, 1, b - 0xC0)
      else do
        let cs ← readSize tl (b - 0xF7)
        pure (.list, b - 0xF7 + 1, cs)
    match r with
    | .ok (k, ts, cs) => if cs > buf.length - ts then .err else .ok (k, ts, cs)
    | e => e

/-- raw.go Split: (kind, content, rest) -/
def rsplit (b : Bytes) : Dec (Kind × Bytes × Bytes) := do
  let (k, ts, cs) ← readKind b
  pure (k, (b.drop ts).take cs, b.drop (ts + cs))

def splitString (b : Bytes) : Dec (Bytes × Bytes) := do
  let (k, c, r) ← rsplit b
  if k == .list then .err else pure (c, r)

def splitList (b : Bytes) : Dec (Bytes × Bytes) := do
  let (k, c, r) ← rsplit b
  if k != .list then .err else pure (c, r)

/-- raw.go CountValues (every value consumes at least one byte; fuel = length) -/
def countValuesAux : Nat → Bytes → Nat → Dec Nat
  | _, [], i => .ok i
  | 0, _ :: _, _ => .err
  | f + 1, b@(_ :: _), i => do
    let (_, ts, cs) ← readKind b
    countValuesAux f (b.drop (ts + cs)) (i + 1)

def countValues (b : Bytes) : Dec Nat := countValuesAux b.length b 0

/-- encoding.go compactToHex.  `base = keybytesToHex(compact)`; `base[0] < 2` drops the terminator; `chop = 2 - base[0]&1`;
`base[chop:]` — with an empty input `base = [16]` and `base[2:]` is out of range: PANIC. -/
def compactToHex (compact : Bytes) : Dec (List Nib) :=
  if compact.isEmpty then .ok [] else
  let base := keybytesToHex compact
  match base with
  | [] => .panic
  | b0 :: _ =>
    let base := if b0.val < 2 then base.dropLast else base
    let chop := 2 - b0.val % 2
    if chop > base.length then .panic else .ok (base.drop chop)

/-- node.go decodeRef, with the recursive call `decodeNode(nil, buf, cachegen)` on an embedded node as a parameter -/
def decodeRefWith (rec : Bytes → Dec CNode) (buf : Bytes) : Dec (CNode × Bytes) := do
  let (kind, val, rest) ← rsplit buf
  if kind == .list then
    if buf.length - rest.length > 32 then .err
    else do
      let n ← rec buf
      pure (n, rest)
  else if val.length == 0 then pure (.nil, rest)
  else if val.length == 32 then pure (.hash val, rest)
  else .err

/-- the loop `for i := 0; i < 16; i++ { decodeRef }` of decodeFull -/
def decodeRefsWith (rec : Bytes → Dec CNode) : Nat → Bytes → Dec (List CNode × Bytes)
  | 0, b => pure ([], b)
  | n + 1, b => do
    let (c, rest) ← decodeRefWith rec b
    let (cs, rest') ← decodeRefsWith rec n rest
    pure (c :: cs, rest')

def decodeShortWith (rec : Bytes → Dec CNode) (elems : Bytes) : Dec CNode := do
  let (kbuf, rest) ← splitString elems
  let key ← compactToHex kbuf
  if hasTerm key then do
    let (val, _) ← splitString rest
    pure (.short key (.value val))
  else do
    let (r, _) ← decodeRefWith rec rest
    pure (.short key r)

def decodeFullWith (rec : Bytes → Dec CNode) (elems : Bytes) : Dec CNode := do
  let (cs, rest) ← decodeRefsWith rec 16 elems
  let (val, _) ← splitString rest
  let last : CNode := if val.isEmpty then .nil else .value val
  pure (.full (fun i => (cs ++ [last]).getD i.val .nil))

/-- node.go decodeNode (fuel bounds the nesting depth of embedded nodes; every level consumes a list header) -/
def decodeNode : Nat → Bytes → Dec CNode
  | 0, _ => .err
  | f + 1, buf =>
    if buf.isEmpty then .err
    else do
      let (elems, _) ← splitList buf
      let c := match countValues elems with | .ok c => c | _ => 0
      if c == 2 then decodeShortWith (decodeNode f) elems
      else if c == 17 then decodeFullWith (decodeNode f) elems
      else .err

/-- the decoder `VerifyProof` runs on a proof node (fuel = length + 1 is more than the nesting depth) -/
def decodeExec (buf : Bytes) : Dec CNode := decodeNode (buf.length + 1) buf

/-- VerifyProof with the executable decoder; a decoder panic is the verifier's panic -/
def verifyExec (H : Bytes → Bytes) (db : Bytes → Option Bytes) : Nat → Bytes → List Nib → VRes :=
  verify H decodeExec db

end Model.Trie
