/-
Executable model of node.go decodeNode / decodeShort / decodeFull / decodeRef, encoding.go compactToHex and the
libs/ser raw splitting functions they use (raw.go Split / SplitString / SplitList / CountValues / readKind / readSize).
Core Lean only.  Used by the driver for the malformed-proof stream (`rawverify`), where the database is built from
arbitrary bytes.  Defects are modelled as they are: `compactToHex` of an EMPTY compact key slices out of range (Go panic).
-/
import LinkVerif.Model.TrieProof

namespace Model.Trie

inductive Dec (α : Type) where
  | ok (a : α)
  | err
  | panic

instance : Monad Dec where
  pure := .ok
  bind x f := match x with
    | .ok a => f a
    | .err => .err
    | .panic => .panic

inductive Kind where
  | byte | string | list
deriving DecidableEq

/-- raw.go readSize -/
def readSize (b : Bytes) (slen : Nat) : Dec Nat :=
  if slen > b.length then .err
  else
    let s := (b.take slen).foldl (fun acc x => acc * 256 + x.toNat) 0
    if s < 56 || b.headD 0 == 0 then .err else .ok s

/-- raw.go readKind: (kind, tagsize, contentsize) -/
def readKind (buf : Bytes) : Dec (Kind × Nat × Nat) :=
  match buf with
  | [] => .err
  | b0 :: tl =>
    let b := b0.toNat
    let r : Dec (Kind × Nat × Nat) :=
      if b < 0x80 then .ok (.byte, 0, 1)
      else if b < 0xB8 then
        let cs := b - 0x80
        if cs == 1 && (match tl with | x :: _ => x.toNat < 128 | [] => false) then .err else .ok (.string, 1, cs)
      else if b < 0xC0 then do
        let cs ← readSize tl (b - 0xB7)
        pure (.string, b - 0xB7 + 1, cs)
      else if b < 0xF8 then .ok (.list, 1, b - 0xC0)
      else do
        let cs ← readSize tl (b - 0xF7)
        pure (.list, b - 0xF7 + 1, cs)
    match r with
    | .ok (k, ts, cs) => if cs > buf.length - ts then .err else .ok (k, ts, cs)
    | e => e

/-- raw.go Split: (kind, content, rest) -/
def rsplit (b : Bytes) : Dec (Kind × Bytes × Bytes) := do
  let (k, ts, cs) ← readKind b
  pure (k, (b.drop ts).take cs, b.drop (ts + cs))

def splitString (b : Bytes) : Dec (Bytes × Bytes) := do
  let (k, c, r) ← rsplit b
  if k == .list then .err else pure (c, r)

def splitList (b : Bytes) : Dec (Bytes × Bytes) := do
  let (k, c, r) ← rsplit b
  if k != .list then .err else pure (c, r)

/-- raw.go CountValues (every value consumes at least one byte; fuel = length) -/
def countValuesAux : Nat → Bytes → Nat → Dec Nat
  | _, [], i => .ok i
  | 0, _ :: _, _ => .err
  | f + 1, b@(_ :: _), i => do
    let (_, ts, cs) ← readKind b
    countValuesAux f (b.drop (ts + cs)) (i + 1)

def countValues (b : Bytes) : Dec Nat := countValuesAux b.length b 0

/-- encoding.go compactToHex.  `base = keybytesToHex(compact)`; `base[0] < 2` drops the terminator; `chop = 2 - base[0]&1`;
`base[chop:]` — with an empty input `base = [16]` and `base[2:]` is out of range: PANIC. -/
def compactToHex (compact : Bytes) : Dec (List Nib) :=
  if compact.isEmpty then .ok [] else
  let base := keybytesToHex compact
  match base with
  | [] => .panic
  | b0 :: _ =>
    let base := if b0.val < 2 then base.dropLast else base
    let chop := 2 - b0.val % 2
    if chop > base.length then .panic else .ok (base.drop chop)

mutual
/-- node.go decodeNode (fuel bounds the nesting depth; every level consumes a list header) -/
def decodeNode : Nat → Bytes → Dec CNode
  | 0, _ => .err
  | f + 1, buf =>
    if buf.isEmpty then .err
    else do
      let (elems, _) ← splitList buf
      let c := match countValues elems with | .ok c => c | _ => 0
      if c == 2 then decodeShort f elems
      else if c == 17 then decodeFull f elems
      else .err

def decodeShort : Nat → Bytes → Dec CNode
  | f, elems => do
    let (kbuf, rest) ← splitString elems
    let key ← compactToHex kbuf
    if hasTerm key then do
      let (val, _) ← splitString rest
      pure (.short key (.value val))
    else do
      let (r, _) ← decodeRef f rest
      pure (.short key r)

def decodeFull : Nat → Bytes → Dec CNode
  | f, elems => do
    let rec go (n : Nat) (b : Bytes) (acc : List CNode) : Dec (List CNode × Bytes) :=
      match n with
      | 0 => pure (acc.reverse, b)
      | n + 1 => do
        let (c, rest) ← decodeRef f b
        go n rest (c :: acc)
    let (cs, rest) ← go 16 elems []
    let (val, _) ← splitString rest
    let last : CNode := if val.isEmpty then .nil else .value val
    let arr := (cs ++ [last]).toArray
    pure (.full (fun i => arr[i.val]!))

/-- node.go decodeRef -/
def decodeRef : Nat → Bytes → Dec (CNode × Bytes)
  | f, buf => do
    let (kind, val, rest) ← rsplit buf
    if kind == .list then
      if buf.length - rest.length > 32 then .err
      else
        match f with
        | 0 => .err
        | f' + 1 => do
          let n ← decodeNode f' buf
          pure (n, rest)
    else if val.length == 0 then pure (.nil, rest)
    else if val.length == 32 then pure (.hash val, rest)
    else .err
end

/-- VerifyProof with the executable decoder; a decoder panic is the verifier's panic -/
def verifyExec (H : Bytes → Bytes) (db : Bytes → Option Bytes) : Nat → Bytes → List Nib → VRes
  | 0, _, _ => .fuel
  | f + 1, want, key =>
    match db want with
    | none => .error
    | some buf =>
      match decodeNode (buf.length + 1) buf with
      | .err => .error
      | .panic => .panic
      | .ok n =>
        match cget n key with
        | .found v => .value v
        | .absent => .absent
        | .goto h rest => verifyExec H db f h rest
        | .panic => .panic

end Model.Trie
