/-
Model of libs/trie (Merkle-Patricia trie, go-ethereum lineage, `libs/ser` = RLP node encoding).  Core Lean only.

Transcribed from libs/trie/trie.go (`tryGet`, `insert`, `delete`), encoding.go (`keybytesToHex`, `hexToCompact`,
`compactToHex`, `prefixLen` as `split`), hasher.go (`hash`/`hashChildren`/`store`: the < 32-byte embedding rule),
node.go (`fullNode.EncodeSER`: nil child -> empty string), proof.go (`Prove`: which path nodes become proof elements),
iterator.go (`nextChild`: children 0..16 in index order, i.e. the value slot 16 LAST).

Companion files: Model/TrieProof.lean (VerifyProof over decoded nodes), Model/TrieDecode.lean (executable decodeNode).

What is not modelled (covered by the differential tie only): `hashNode` resolution from the node database, cache
generations / dirty flags / unloading.  The `dirty` result of `insert`/`delete` only controls node reuse and flags;
the returned tree is what is modelled.  Keys inside the trie are HEX keys: nibbles 0..15 followed by the terminator 16
(`keybytesToHex`), `Nib = Fin 17` indexes `fullNode.Children`.

Go panics are `none`:
  * `insert`: a `valueNode` reached with key nibbles left (`default: panic("invalid node")`), `key[matchlen]` with the
    key exhausted inside a short node's key (index out of range);
  * `delete`: `key[0]` at a full node with the key exhausted.
`get` at a full node with the key exhausted would panic in Go too (`key[pos]`); `get` answers `none` there.
None of these is reachable with terminator keys on tries built from terminator keys (Props.C10.insert_total …).
-/
namespace Model.Trie

abbrev Nib := Fin 17
abbrev Bytes := List UInt8

/-- the terminator nibble of HEX keys -/
def term : Nib := 16

inductive Node where
  | nil
  | value (v : Bytes)
  | short (k : List Nib) (c : Node)
  | full (c : Nib → Node)

instance : Inhabited Node := ⟨.nil⟩

def Node.isNil : Node → Bool
  | .nil => true
  | _ => false

def Node.isValue : Node → Bool
  | .value _ => true
  | _ => false

def Node.isShort : Node → Bool
  | .short _ _ => true
  | _ => false

/-- encoding.go keybytesToHex -/
def keybytesToHex (bs : Bytes) : List Nib :=
  bs.foldr (fun b acc => Fin.ofNat 17 (b.toNat / 16) :: Fin.ofNat 17 (b.toNat % 16) :: acc) [term]

/-- `strip k key = some r` iff `key = k ++ r`
(`len(key) >= len(k) && bytes.Equal(k, key[:len(k)])`, then `key[len(k):]`) -/
def strip : List Nib → List Nib → Option (List Nib)
  | [], key => some key
  | _ :: _, [] => none
  | a :: k, b :: key => if a = b then strip k key else none

/-- `split a b = (p, a', b')`: `p` the longest common prefix (`prefixLen`), `a = p ++ a'`, `b = p ++ b'` -/
def split : List Nib → List Nib → List Nib × List Nib × List Nib
  | a :: as, b :: bs =>
    if a = b then
      let r := split as bs
      (a :: r.1, r.2.1, r.2.2)
    else ([], a :: as, b :: bs)
  | as, bs => ([], as, bs)

/-- trie.go tryGet (without hashNode resolution) -/
def get : Node → List Nib → Option Bytes
  | .nil, _ => none
  | .value v, _ => some v
  | .short k c, key =>
    match strip k key with
    | some r => get c r
    | none => none
  | .full c, i :: r => get (c i) r
  | .full _, [] => none

/-- `t.insert(nil, prefix, key, value)`: `len(key) == 0` returns the value, `case nil` a short node -/
def insertNil (key : List Nib) (value : Node) : Node :=
  match key with
  | [] => value
  | _ :: _ => .short key value

/-- a fresh `fullNode` with (at most) two children set, in assignment order -/
def branch2 (i : Nib) (a : Node) (j : Nib) (b : Node) : Nib → Node :=
  fun x => if x = j then b else if x = i then a else .nil

def setChild (c : Nib → Node) (i : Nib) (n : Node) : Nib → Node :=
  fun x => if x = i then n else c x

/-- trie.go insert; `value` is a node (a `valueNode` from `TryUpdate`, a subtree when a short node is split) -/
def insert : Node → List Nib → Node → Option Node
  | _, [], value => some value
  | .short k c, key@(_ :: _), value =>
    match split key k with
    | (_, keyRest, []) =>                      -- matchlen == len(n.Key)
      (insert c keyRest value).map (.short k)
    | (_, [], _ :: _) => none                -- key[matchlen]: index out of range
    | (p, y :: yr, x :: xr) =>
      let br := Node.full (branch2 x (insertNil xr c) y (insertNil yr value))
      match p with
      | [] => some br
      | _ :: _ => some (.short p br)
  | .full c, i :: r, value =>
    (insert (c i) r value).map (fun nn => .full (setChild c i nn))
  | .nil, key@(_ :: _), value => some (.short key value)
  | .value _, _ :: _, _ => none              -- default: panic("invalid node")

/-- the number of non-nil children and the position of the first one -/
def firstNonNil (c : Nib → Node) : List Nib :=
  (List.finRange 17).filter (fun i => !(c i).isNil)

/-- trie.go delete -/
def delete : Node → List Nib → Option Node
  | .short k c, key =>
    match split key k with
    | (_, _, _ :: _) => some (.short k c)   -- matchlen < len(n.Key): not found
    | (_, [], []) => some .nil              -- matchlen == len(key): remove n entirely
    | (_, keyRest@(_ :: _), []) =>
      match delete c keyRest with
      | none => none
      | some (.short k' c') => some (.short (k ++ k') c')
      | some child => some (.short k child)
  | .full c, i :: r =>
    match delete (c i) r with
    | none => none
    | some nn =>
      let c' := setChild c i nn
      match firstNonNil c' with
      | [pos] =>
        if pos ≠ term then
          match c' pos with
          | .short k' c'' => some (.short (pos :: k') c'')
          | child => some (.short [pos] child)
        else some (.short [pos] (c' pos))
      | _ => some (.full c')              -- zero (impossible on normal forms) or at least two children left
  | .full _, [] => none                    -- key[0]: index out of range
  | .value _, _ => some .nil
  | .nil, _ => some .nil

/-! ## node encoding (libs/ser is RLP for these types) and hashing -/

def beBytesAux : Nat → Nat → Bytes
  | 0, _ => []
  | f + 1, n => if n < 256 then [UInt8.ofNat n] else beBytesAux f (n / 256) ++ [UInt8.ofNat (n % 256)]

/-- big-endian, minimal length (lengths are < 2^64: `putint`) -/
def beBytes (n : Nat) : Bytes := beBytesAux 8 n

def rlpHead (base : Nat) (len : Nat) : Bytes :=
  if len < 56 then [UInt8.ofNat (base + len)]
  else let be := beBytes len; UInt8.ofNat (base + 55 + be.length) :: be

def rlpStr (b : Bytes) : Bytes :=
  match b with
  | [x] => if x.toNat < 128 then [x] else rlpHead 128 1 ++ b
  | _ => rlpHead 128 b.length ++ b

def rlpList (payload : Bytes) : Bytes := rlpHead 192 payload.length ++ payload

def packNibbles : List Nib → Bytes
  | a :: b :: r => UInt8.ofNat (a.val * 16 + b.val) :: packNibbles r
  | _ => []

def hasTerm (k : List Nib) : Bool := k.getLast? == some term

/-- encoding.go hexToCompact -/
def hexToCompact (hex : List Nib) : Bytes :=
  let t : Nat := if hasTerm hex then 1 else 0
  let h := if hasTerm hex then hex.dropLast else hex
  if h.length % 2 = 1 then
    match h with
    | x :: r => UInt8.ofNat (t * 32 + 16 + x.val) :: packNibbles r
    | [] => [UInt8.ofNat (t * 32)]
  else UInt8.ofNat (t * 32) :: packNibbles h

/-- hasher.store with force=false: encodings shorter than 32 bytes are embedded, others replaced by their hash -/
def embed (H : Bytes → Bytes) (e : Bytes) : Bytes :=
  if e.length < 32 then e else rlpStr (H e)

/-- the `ser` encoding of the collapsed node (children replaced by embed/hash references).
nil child of a full node: `nilValueNode` = empty string 0x80. -/
def enc (H : Bytes → Bytes) : Node → Bytes
  | .nil => [0x80]
  | .value v => rlpStr v
  | .short k c =>
    let e := enc H c
    rlpList (rlpStr (hexToCompact k) ++ (if c.isValue then e else embed H e))
  | .full c =>
    rlpList ((List.finRange 17).flatMap (fun i => if i = term then enc H (c i) else embed H (enc H (c i))))

/-- Trie.Hash(): emptyRoot = H(0x80) for the empty trie, else the hash of the root encoding (force=true) -/
def root (H : Bytes → Bytes) (n : Node) : Bytes := H (enc H n)

/-! ## content, iteration -/

/-- iterator.go: pre-order, children in index order 0..16 (the value slot comes last) -/
def toMap : Node → List (List Nib × Bytes)
  | .nil => []
  | .value v => [([], v)]
  | .short k c => (toMap c).map (fun kv => (k ++ kv.1, kv.2))
  | .full c => (List.finRange 17).flatMap (fun i => (toMap (c i)).map (fun kv => (i :: kv.1, kv.2)))

/-- hexToKeybytes (drops the terminator; keys of odd nibble length do not occur) -/
def hexToKeybytes (hex : List Nib) : Bytes :=
  packNibbles (if hasTerm hex then hex.dropLast else hex)

/-! ## proofs (proof.go Prove) -/

/-- the nodes visited by `Prove` on the way to `key` -/
def path : Node → List Nib → List Node
  | _, [] => []
  | .nil, _ => []
  | .value _, _ => []
  | .short k c, key@(_ :: _) =>
    .short k c :: (match strip k key with
      | some r => path c r
      | none => [])
  | .full c, i :: r => .full c :: path (c i) r

/-- proof elements in path order: the root node and every path node whose encoding is not embedded -/
def proofNodes (H : Bytes → Bytes) (n : Node) (key : List Nib) : List Bytes :=
  match (path n key).map (enc H) with
  | [] => []
  | e :: es => e :: es.filter (fun x => x.length ≥ 32)

/-! ## the API level: plain trie keyed by bytes; `Update` with an empty value deletes -/

def update (n : Node) (key : Bytes) (v : Bytes) : Option Node :=
  if v.isEmpty then delete n (keybytesToHex key) else insert n (keybytesToHex key) (.value v)

def lookup (n : Node) (key : Bytes) : Option Bytes := get n (keybytesToHex key)

end Model.Trie
