/-
Model for C05: the places where Go lets nondeterminism into block execution.
 * `state/keyvalue.go: wrappedTrie.Hash` — the "state hash" is Keccak of the concatenation of the records
   `keyhash ‖ value` pushed since the last `Hash()`, popped from a heap ordered by `bytes.Compare`, i.e. sorted.
   `Finalise` / `updateTrie` push them in Go map iteration order (random per run).
 * `app/app.go: verifyTxsOnProcess` — `offset = (NumCPU+3)/4` workers check the transactions with strided indices, each
   worker writes only its own error slot and stops at its first error; the block is rejected iff some slot is set.
Core Lean only.
-/
import LinkVerif.Model.KV

namespace Model.StateHash
open Model.KV

/-- the heap order of `kvHeap.Less` (strict `bytes.Compare`), as a non-strict total preorder for sorting -/
def leB (a b : Bytes) : Bool := ble a b

/-- `wrappedTrie.Hash` over the records pushed since the last call, for any hash function `H` -/
def hashOf (H : Bytes → Bytes) (records : List Bytes) : Bytes := H ((records.mergeSort leB).flatten)

/-- one worker of `verifyTxsOnProcess`: indices `i, i+offset, …` below `n`, stopping at the first error (fuel = n) -/
def worker (check : Nat → Option String) (n offset : Nat) : Nat → Nat → Option String
  | 0, _ => none
  | fuel + 1, i => if i < n then (match check i with | some e => some e | none => worker check n offset fuel (i + offset)) else none

/-- the error slots, one per worker -/
def slots (check : Nat → Option String) (n offset : Nat) : List (Option String) :=
  (List.range offset).map (fun w => worker check n offset n w)

/-- `verifyTxsOnProcess`: the first non-nil slot, `none` = the block passes the pre-check -/
def precheck (check : Nat → Option String) (n offset : Nat) : Option String :=
  ((slots check n offset).filterMap id).head?

end Model.StateHash
