/-
Model of `libs/db` (C19): the reference ordered map, `MemDB` (map + `getSortedKeys`), `memBatch`,
`PrefixDB`, and the leaf functions `IsKeyInDomain`, `cpIncr`, `cpDecr`, `PrefixToEnd`, `IteratePrefix`.
Core Lean only.  The model mirrors what the Go code does today (after the repairs b779b6d, cf43a03, afaf3d1,
e8d9b40, 201fd44): prefix ranges end at `PrefixToEnd(prefix)`; goleveldb's `Load`/`Exist` are the reference;
a badger reverse iterator with an empty non-nil start is empty; `cpIncr` is dead code (no caller) and is not
modelled any more, `cpDecr` still bounds `PrefixDB.ReverseIterator(_, nil)`.
`[]byte` is `List UInt8`; a Go slice that may be nil (iterator bounds) is `Option (List UInt8)`.
-/
namespace Model.KV

abbrev Bytes := List UInt8
/-- an iterator bound: `none` = Go `nil` -/
abbrev Bound := Option Bytes
abbrev KV := Bytes × Bytes

/-- `bytes.Compare a b < 0` (lexicographic, unsigned bytes) -/
def blt : Bytes → Bytes → Bool
  | [], [] => false
  | [], _ :: _ => true
  | _ :: _, [] => false
  | a :: as, b :: bs => if a.toNat < b.toNat then true else if b.toNat < a.toNat then false else blt as bs

/-- `bytes.Compare a b <= 0` -/
def ble (a b : Bytes) : Bool := !blt b a

/-- a nil slice compares like the empty slice -/
def bval (b : Bound) : Bytes := b.getD []

def hasPrefix : Bytes → Bytes → Bool
  | [], _ => true
  | _ :: _, [] => false
  | p :: ps, k :: ks => p == k && hasPrefix ps ks

/-! ## leaf functions of `libs/db/util.go`, `types.go` -/

/-- `IsKeyInDomain(key, start, end, isReverse)`, statement by statement -/
def isKeyInDomain (key : Bytes) (s e : Bound) (rev : Bool) : Bool :=
  if !rev then
    if blt key (bval s) then false
    else if e.isSome && ble (bval e) key then false
    else true
  else
    if s.isSome && blt (bval s) key then false
    else if e.isSome && ble key (bval e) then false
    else true

/-- the loop of `cpDecr` on a non-empty slice: fixed-width big-endian -1, `none` (Go nil) on underflow -/
def cpDecrCore : Bytes → Option Bytes
  | [] => none
  | b :: rest =>
    match cpDecrCore rest with
    | some r => some (b :: r)
    | none => if 0 < b.toNat then some ((b - 1) :: rest.map (fun _ => 255)) else none

/-- `cpDecr`: outer `none` = Go panics ("expects non-zero bz length") -/
def cpDecr (bz : Bytes) : Option Bound := if bz.isEmpty then none else some (cpDecrCore bz)

/-- `PrefixToEnd`: the last byte below 0xff incremented, everything after it dropped; nil if there is none -/
def prefixToEnd : Bytes → Bound
  | [] => none
  | b :: rest =>
    match prefixToEnd rest with
    | some r => some (b :: r)
    | none => if b.toNat < 255 then some [b + 1] else none

/-! ## reference ordered map: association list, strictly ascending keys -/

abbrev Ref := List KV

def Ref.get : Ref → Bytes → Option Bytes
  | [], _ => none
  | (k', v') :: rest, k => if k' == k then some v' else Ref.get rest k

def Ref.set : Ref → Bytes → Bytes → Ref
  | [], k, v => [(k, v)]
  | (k', v') :: rest, k, v =>
    if blt k k' then (k, v) :: (k', v') :: rest
    else if blt k' k then (k', v') :: Ref.set rest k v
    else (k, v) :: rest

def Ref.del (m : Ref) (k : Bytes) : Ref := m.filter (fun kv => !(kv.1 == k))

/-- forward range, as the interface documents it: start <= k < end, nil end = unbounded -/
def inFwd (k : Bytes) (s e : Bound) : Bool :=
  ble (bval s) k && (match e with | none => true | some e' => blt k e')

/-- reverse range of this code base: end < k <= start (start inclusive), nil = unbounded -/
def inRev (k : Bytes) (s e : Bound) : Bool :=
  (match s with | none => true | some s' => ble k s') && (match e with | none => true | some e' => blt e' k)

def Ref.iter (m : Ref) (s e : Bound) : List KV := m.filter (fun kv => inFwd kv.1 s e)
def Ref.riter (m : Ref) (s e : Bound) : List KV := (m.filter (fun kv => inRev kv.1 s e)).reverse

/-! ## batches (`memBatch`; the other adapters keep per-backend native batches with the same contract) -/

inductive BOp where
  | set (k v : Bytes)
  | del (k : Bytes)
deriving Repr, DecidableEq

/-! ## `MemDB`: a Go map (association list in arbitrary order, keys distinct) + `getSortedKeys` -/

structure MemDB where
  m : List KV
deriving Repr

def MemDB.get (db : MemDB) (k : Bytes) : Option Bytes := Ref.get db.m k

/-- `db.db[string(key)] = value` -/
def MemDB.set (db : MemDB) (k v : Bytes) : MemDB := ⟨(k, v) :: db.m.filter (fun kv => !(kv.1 == k))⟩

/-- `delete(db.db, string(key))` -/
def MemDB.del (db : MemDB) (k : Bytes) : MemDB := ⟨db.m.filter (fun kv => !(kv.1 == k))⟩

def insertKey (k : Bytes) : List Bytes → List Bytes
  | [] => [k]
  | x :: rest => if blt x k then x :: insertKey k rest else k :: x :: rest

/-- `sort.Strings` -/
def sortKeys : List Bytes → List Bytes
  | [] => []
  | k :: rest => insertKey k (sortKeys rest)

/-- `getSortedKeys(start, end, reverse)` -/
def MemDB.getSortedKeys (db : MemDB) (s e : Bound) (rev : Bool) : List Bytes :=
  let keys := (db.m.map (·.1)).filter (fun k => isKeyInDomain k s e rev)
  let sorted := sortKeys keys
  if rev then sorted.reverse else sorted

/-- draining a `memDBIterator`: `Key()`, `Value() = db.Get(key)` for every collected key -/
def MemDB.drain (db : MemDB) (keys : List Bytes) : List KV := keys.map (fun k => (k, (db.get k).getD []))

def MemDB.iter (db : MemDB) (s e : Bound) : List KV := db.drain (db.getSortedKeys s e false)
def MemDB.riter (db : MemDB) (s e : Bound) : List KV := db.drain (db.getSortedKeys s e true)

/-! ### the step-wise `memDBIterator`: the KEYS are collected at creation, `Value()` reads the map at the time of the call -/

structure MemIt where
  keys : List Bytes      -- from the cursor on
deriving Repr

def MemDB.openIt (db : MemDB) (s e : Bound) (rev : Bool) : MemIt := ⟨db.getSortedKeys s e rev⟩

/-- `Valid`, `Key`, `Value`, `Next` against the map as it is NOW; `none` = invalid (end) -/
def MemIt.step (it : MemIt) (now : MemDB) : Option (KV × MemIt) :=
  match it.keys with
  | [] => none
  | k :: ks => some ((k, (now.get k).getD []), ⟨ks⟩)

/-- stepping through a history of map states (one state per step) -/
def MemIt.run (it : MemIt) : List MemDB → List KV
  | [] => []
  | now :: later =>
    match it.step now with
    | none => []
    | some (kv, it') => kv :: it'.run later

/-! ## the common `DB` interface as seen by `PrefixDB` and the driver -/

structure DBI (σ : Type) where
  get : σ → Bytes → Option Bytes
  load : σ → Bytes → Option Bytes
  exist : σ → Bytes → Bool
  set : σ → Bytes → Bytes → σ
  del : σ → Bytes → σ
  iter : σ → Bound → Bound → List KV
  riter : σ → Bound → Bound → List KV
  reopen : σ → σ

def memI : DBI MemDB :=
  { get := MemDB.get, load := MemDB.get, exist := fun db k => (db.get k).isSome, set := MemDB.set, del := MemDB.del,
    iter := MemDB.iter, riter := MemDB.riter, reopen := id }

/-- bolt (and badger up to its reverse-start quirk): the reference itself -/
def refI : DBI Ref :=
  { get := Ref.get, load := Ref.get, exist := fun m k => (Ref.get m k).isSome, set := Ref.set, del := Ref.del,
    iter := Ref.iter, riter := Ref.riter, reopen := id }

/-- badger: a reverse iterator with an empty non-nil start is born invalid (`isInvalid: isReverse && start != nil &&
len(start) == 0`).  Badger stores no empty key, so this IS the reference answer on every reachable store
(theorem `bdg_riter_eq_ref`). -/
def bdgI : DBI Ref :=
  { refI with riter := fun m s e => match s with | some [] => [] | _ => Ref.riter m s e }

/-- goleveldb: the reference (`Load` returns a nil value with the error since cf43a03) -/
def ldbI : DBI Ref := refI

/-- what a batch object holds after `Write`/`Commit`, per adapter: `memBatch.write` and goleveldb's `Batch` keep the
recorded operations (a second `Write` without `Reset` applies them again); bolt's `Write` ends with `Reset()` and
badger's with `renew()` (fresh WriteBatches), so there the batch is empty afterwards -/
inductive AfterWrite where
  | keeps
  | empty
deriving Repr, DecidableEq

def batchAfterWrite (aw : AfterWrite) (ops : List BOp) : List BOp :=
  match aw with
  | .keeps => ops
  | .empty => []

/-! ## what the engines do with the EMPTY key (observed on the real adapters, tied by the `emptykey` stream)
  bolt   : `Bucket.Put` refuses it ("key required"): `Set`/`SetSync` log and drop, `Put` returns the error, reads answer
           "not found", `Delete`/`Del` are no-ops, a batch silently drops such an op;
  badger : `Txn.Set` refuses it: `Set`/`SetSync`/`Put` swallow ErrEmptyKey and drop; `Get`/`Has` PANIC (ErrEmptyKey is not
           ErrKeyNotFound), `Load`/`Exist` answer "not found" with the error, `Delete`/`DeleteSync` PANIC (PanicCrisis),
           `Del` returns the error, a batch silently drops such an op;
  memdb, goleveldb : the empty key is an ordinary key. -/
inductive Engine where
  | mem | ldb | bolt | bdg
deriving Repr, DecidableEq

/-- does a write (direct or through a batch) of key `k` reach the store? -/
def Engine.stores (e : Engine) (k : Bytes) : Bool :=
  match e with
  | .bolt | .bdg => !k.isEmpty
  | _ => true

/-- `Get`/`Has` panic -/
def Engine.panicsOnRead (e : Engine) (k : Bytes) : Bool := e == .bdg && k.isEmpty
/-- `Delete`/`DeleteSync` panic -/
def Engine.panicsOnDelete (e : Engine) (k : Bytes) : Bool := e == .bdg && k.isEmpty
/-- `Put` returns an error (bolt), `Del` returns an error (badger) -/
def Engine.putErr (e : Engine) (k : Bytes) : Bool := e == .bolt && k.isEmpty
def Engine.delErr (e : Engine) (k : Bytes) : Bool := e == .bdg && k.isEmpty

/-- the ops of a batch that an engine's `Write` really applies -/
def Engine.batchOps (e : Engine) (ops : List BOp) : List BOp :=
  ops.filter (fun op => match op with | .set k _ => e.stores k | .del k => e.stores k)

def applyBOp {σ} (I : DBI σ) (db : σ) : BOp → σ
  | .set k v => I.set db k v
  | .del k => I.del db k

/-- `Batch.Write`: the recorded operations, in order -/
def writeBatch {σ} (I : DBI σ) (db : σ) (ops : List BOp) : σ := ops.foldl (applyBOp I) db

/-! ## `IteratePrefix`, `NewIteratorWithPrefix` -/

/-- `IteratePrefix(db, prefix)`: `Iterator(prefix, PrefixToEnd(prefix))`, whole store for the empty prefix -/
def iteratePrefix {σ} (I : DBI σ) (db : σ) (p : Bytes) : List KV :=
  if p.isEmpty then I.iter db none none else I.iter db (some p) (prefixToEnd p)

/-- `NewIteratorWithPrefix(prefix)` of every adapter: `Iterator(prefix, PrefixToEnd(prefix))`
(`p` as given: nil stays nil) -/
def prefixIter {σ} (I : DBI σ) (db : σ) (p : Bound) : List KV := I.iter db p (prefixToEnd (bval p))

/-! ## `PrefixDB` -/

def strip (p : Bytes) (kv : KV) : KV := (kv.1.drop p.length, kv.2)

/-- what a `prefixIterator` yields from its source: up to the first key without the prefix, prefix stripped -/
def prefixTake (p : Bytes) (src : List KV) : List KV := (src.takeWhile (fun kv => hasPrefix p kv.1)).map (strip p)

/-- bounds handed to the underlying `Iterator` (never panics since the repair) -/
def pfxBoundsFwd (p : Bytes) (s e : Bound) : Bound × Bound :=
  (some (p ++ bval s), match e with | none => prefixToEnd p | some e' => some (p ++ e'))

/-- bounds handed to the underlying `ReverseIterator`; `none` = panic (`cpDecr` of an empty prefix, nil end) -/
def pfxBoundsRev (p : Bytes) (s e : Bound) : Option (Bound × Bound) :=
  let pstart : Bound := match s with | none => prefixToEnd p | some s' => some (p ++ s')
  match e with
  | none => (cpDecr p).map (fun pend => (pstart, pend))
  | some e' => some (pstart, some (p ++ e'))

/-- `skipOne(itr, skipKey)`: drop the first item if its key equals skipKey (`bytes.Equal`, nil = empty) -/
def skipOne (src : List KV) (skip : Bound) : List KV :=
  match src with
  | [] => []
  | kv :: rest => if kv.1 == bval skip then rest else kv :: rest

/-- `prefixDB.Iterator(start, end)`, drained -/
def pfxIter {σ} (I : DBI σ) (db : σ) (p : Bytes) (s e : Bound) : List KV :=
  prefixTake p (I.iter db (pfxBoundsFwd p s e).1 (pfxBoundsFwd p s e).2)

/-- `prefixDB.ReverseIterator(start, end)`, drained; `none` = panic.  With a nil start the source starts at
`PrefixToEnd(prefix)` (inclusive) and that one key is skipped (`skipOne`). -/
def pfxRIter {σ} (I : DBI σ) (db : σ) (p : Bytes) (s e : Bound) : Option (List KV) :=
  (pfxBoundsRev p s e).map (fun (ps, pe) =>
    let src := I.riter db ps pe
    let src := if s.isNone then skipOne src (prefixToEnd p) else src
    prefixTake p src)

/-- `prefixDB.NewIteratorWithPrefix(prefix)`: start = prefix, end = PrefixToEnd(prefix), then as `Iterator` -/
def pfxPrefixIter {σ} (I : DBI σ) (db : σ) (p : Bytes) (q : Bound) : List KV :=
  pfxIter I db p q (prefixToEnd (bval q))

/-- the view as a `DBI` over the same state (iteration panics are surfaced by the `pfx*` functions above) -/
def pfxI {σ} (I : DBI σ) (p : Bytes) : DBI σ :=
  { get := fun db k => I.get db (p ++ k), load := fun db k => I.load db (p ++ k), exist := fun db k => I.exist db (p ++ k),
    set := fun db k v => I.set db (p ++ k) v, del := fun db k => I.del db (p ++ k),
    iter := fun db s e => pfxIter I db p s e, riter := fun db s e => (pfxRIter I db p s e).getD [],
    reopen := I.reopen }

/-- `prefixBatch.Set/Delete`: the op is recorded in the source batch under `append(cp(prefix), key...)`, a FRESH slice
(in the model keys are values; the Go-level law this stands for: the key slice handed to the source batch is never
written again by a later call - an `append(pb.prefix, key...)` without the copy would let later calls overwrite it
when the prefix slice has spare capacity, which the harness provokes by building views on such slices) -/
def prefixOp (p : Bytes) : BOp → BOp
  | .set k v => .set (p ++ k) v
  | .del k => .del (p ++ k)

/-- a batch of a view after the calls `ops` (in call order) -/
def prefixBatch (p : Bytes) (ops : List BOp) : List BOp := ops.map (prefixOp p)

/-! ## step-wise iterators with `Seek` and `Domain` -/

/-- an iterator as its user sees it: what it will still deliver, and its `Domain()` -/
structure Cursor where
  rest : List KV
  s : Bound
  e : Bound
  rev : Bool
  /-- a `prefixIterator`: its `valid` flag is set at creation and, the methods having value receivers, never changes -/
  born : Bool := true
deriving Repr

/-- `Seek(k)` of memDBIterator / goLevelDBIterator / boltIterator / badgerIterator: restart at `k`, same end, same direction,
`Domain()` becomes `(k, end)`; the answer is `Valid()`.  (The ORIGINAL start bound is forgotten: a seek below it delivers keys
the iterator was not created over.) -/
def seekStore {σ} (I : DBI σ) (db : σ) (c : Cursor) (k : Bound) : Cursor × Bool :=
  let rest := if c.rev then I.riter db k c.e else I.iter db k c.e
  ({ c with rest := rest, s := k }, !rest.isEmpty)

/-- `prefixIterator.Seek(k)`: a value receiver - the new source is assigned to a COPY, the caller's iterator is not moved; the
answer is `valid-at-creation && Valid()` of a throw-away forward iterator `[prefix ++ k, end)` with the UNPREFIXED view end -/
def seekView {σ} (I : DBI σ) (db : σ) (p : Bytes) (c : Cursor) (k : Bound) : Cursor × Bool :=
  (c, c.born && !(I.iter db (some (p ++ bval k)) c.e).isEmpty)

/-- `Next()` on an INVALID iterator: memDBIterator and prefixIterator return false, the three engine adapters panic -/
def Engine.nextOnInvalidPanics (e : Engine) (view : Bool) : Bool := !view && e != .mem

/-! ## oversized batches (KNOWN FINDING big-batch-split) -/

/-- of the three probed keys (first, middle, last) of a batch of `n` Sets, how many are visible BEFORE `Write`: bolt writes the
batch by itself when it reaches 100000 ops (`boltMaxBatchSize`), badger's WriteBatch commits by itself whenever its transaction is
full (pinned for n = 40000 small entries); memBatch and goleveldb never do -/
def bigBatchEarly (e : Engine) (n : Nat) : Nat :=
  match e with
  | .bolt => if n > 100000 then 2 else 0
  | .bdg => if n ≥ 40000 then 2 else 0
  | _ => 0

/-! ## `Batch.ValueSize()` as each adapter counts it -/

inductive BEvent where
  | set (vlen : Nat)
  | del
  | write
  | reset

/-- memBatch: bytes of the values + 1 per delete, unchanged by Write; goleveldb: never counted (always 0); bolt: one per op,
cleared by Write/Commit (they end with Reset); badger: one per Set, cleared by Reset only -/
def Engine.valueSize (e : Engine) (sz : Nat) : BEvent → Nat
  | .set n => match e with | .mem => sz + n | .ldb => 0 | .bolt => sz + 1 | .bdg => sz + 1
  | .del => match e with | .mem => sz + 1 | .ldb => 0 | .bolt => sz + 1 | .bdg => sz
  | .write => match e with | .bolt => 0 | _ => sz
  | .reset => 0

/-- specification of a prefixed view: the entries under the prefix, prefix stripped -/
def restrict (p : Bytes) (m : Ref) : Ref := (m.filter (fun kv => hasPrefix p kv.1)).map (strip p)

end Model.KV
