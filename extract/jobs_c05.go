package main

// C05 (T2): every `for … range <map>` statement in the block-execution packages (syntactic resolution of map-typed
// struct fields, package variables, locals, parameters and functions returning maps; go/ast only).

import (
	"fmt"
	"go/ast"
	"os"
	"path/filepath"
	"sort"
	"strings"
)

var c05Dirs = []string{"app", "state", "vm/evm", "vm/wasm"}
var c05Files = []string{"types/receipt.go", "types/bloom9.go", "types/balance_record.go", "types/tx.go", "types/blacklist.go", "libs/ser/encode.go"}

func isMapType(e ast.Expr) bool {
	switch t := e.(type) {
	case *ast.MapType:
		return true
	case *ast.ParenExpr:
		return isMapType(t.X)
	}
	return false
}

func isMapValue(e ast.Expr) bool {
	switch v := e.(type) {
	case *ast.CompositeLit:
		return v.Type != nil && isMapType(v.Type)
	case *ast.CallExpr:
		if id, ok := v.Fun.(*ast.Ident); ok && id.Name == "make" && len(v.Args) > 0 {
			return isMapType(v.Args[0])
		}
	}
	return false
}

func init() {
	register("C05Facts", func(e *env) (string, error) {
		var files []string
		for _, d := range c05Dirs {
			ents, err := os.ReadDir(filepath.Join(e.repo, d))
			if err != nil {
				return "", err
			}
			for _, en := range ents {
				if strings.HasSuffix(en.Name(), ".go") && !strings.HasSuffix(en.Name(), "_test.go") && !strings.HasPrefix(en.Name(), "verif_") {
					files = append(files, filepath.Join(d, en.Name()))
				}
			}
		}
		files = append(files, c05Files...)
		sort.Strings(files)
		// pass 1: map-typed names per package directory
		fieldMaps := map[string]map[string]bool{} // dir -> field / var / func names that are maps
		namedMaps := map[string]map[string]bool{} // dir -> named types whose underlying type is a map
		parsed := map[string]*ast.File{}
		for _, f := range files {
			af, err := e.parse(f)
			if err != nil {
				return "", err
			}
			parsed[f] = af
			dir := filepath.Dir(f)
			if fieldMaps[dir] == nil {
				fieldMaps[dir] = map[string]bool{}
				namedMaps[dir] = map[string]bool{}
			}
			ast.Inspect(af, func(n ast.Node) bool {
				if ts, ok := n.(*ast.TypeSpec); ok && isMapType(ts.Type) {
					namedMaps[dir][ts.Name.Name] = true
				}
				return true
			})
		}
		isMapT := func(dir string, t ast.Expr) bool {
			if isMapType(t) {
				return true
			}
			if id, ok := t.(*ast.Ident); ok && namedMaps[dir][id.Name] {
				return true
			}
			return false
		}
		for _, f := range files {
			dir := filepath.Dir(f)
			ast.Inspect(parsed[f], func(n ast.Node) bool {
				switch x := n.(type) {
				case *ast.StructType:
					for _, fl := range x.Fields.List {
						if isMapT(dir, fl.Type) {
							for _, nm := range fl.Names {
								fieldMaps[dir][nm.Name] = true
							}
						}
					}
				case *ast.GenDecl:
					for _, sp := range x.Specs {
						if vs, ok := sp.(*ast.ValueSpec); ok {
							for i, nm := range vs.Names {
								if (vs.Type != nil && isMapT(dir, vs.Type)) || (i < len(vs.Values) && isMapValue(vs.Values[i])) {
									fieldMaps[dir][nm.Name] = true
								}
							}
						}
					}
				case *ast.FuncDecl:
					if x.Type.Results != nil && len(x.Type.Results.List) == 1 && isMapT(dir, x.Type.Results.List[0].Type) {
						fieldMaps[dir]["()"+x.Name.Name] = true
					}
				}
				return true
			})
		}
		// pass 2: range statements
		type site struct{ file, fn, expr string }
		var sites []site
		for _, f := range files {
			dir := filepath.Dir(f)
			for _, d := range parsed[f].Decls {
				fd, ok := d.(*ast.FuncDecl)
				if !ok || fd.Body == nil {
					continue
				}
				locals := map[string]bool{}
				if fd.Type.Params != nil {
					for _, p := range fd.Type.Params.List {
						if isMapT(dir, p.Type) {
							for _, nm := range p.Names {
								locals[nm.Name] = true
							}
						}
					}
				}
				ast.Inspect(fd.Body, func(n ast.Node) bool {
					switch x := n.(type) {
					case *ast.AssignStmt:
						for i, l := range x.Lhs {
							if id, ok := l.(*ast.Ident); ok && i < len(x.Rhs) && isMapValue(x.Rhs[i]) {
								locals[id.Name] = true
							}
						}
					case *ast.DeclStmt:
						if gd, ok := x.Decl.(*ast.GenDecl); ok {
							for _, sp := range gd.Specs {
								if vs, ok := sp.(*ast.ValueSpec); ok && vs.Type != nil && isMapT(dir, vs.Type) {
									for _, nm := range vs.Names {
										locals[nm.Name] = true
									}
								}
							}
						}
					case *ast.RangeStmt:
						ranged := false
						switch r := x.X.(type) {
						case *ast.Ident:
							ranged = locals[r.Name] || fieldMaps[dir][r.Name]
						case *ast.SelectorExpr:
							ranged = fieldMaps[dir][r.Sel.Name]
						case *ast.CallExpr:
							switch fn := r.Fun.(type) {
							case *ast.Ident:
								ranged = fieldMaps[dir]["()"+fn.Name]
							case *ast.SelectorExpr:
								ranged = fieldMaps[dir]["()"+fn.Sel.Name]
							}
						}
						if ranged {
							recv := ""
							if fd.Recv != nil && len(fd.Recv.List) == 1 {
								t := fd.Recv.List[0].Type
								if st, ok := t.(*ast.StarExpr); ok {
									t = st.X
								}
								if id, ok := t.(*ast.Ident); ok {
									recv = id.Name + "."
								}
							}
							sites = append(sites, site{f, recv + fd.Name.Name, src(e, x.X)})
						}
					}
					return true
				})
			}
		}
		var sb strings.Builder
		sb.WriteString("/-- every `for … range <map>` statement in the block-execution packages: (file, function, ranged expression) -/\n")
		sb.WriteString("def mapRangeSites : List (String × String × String) := [\n")
		for i, s := range sites {
			sep := ","
			if i == len(sites)-1 {
				sep = ""
			}
			sb.WriteString(fmt.Sprintf("  (%s, %s, %s)%s\n", c02Str(s.file), c02Str(s.fn), c02Str(s.expr), sep))
			e.facts = append(e.facts, fact{Module: "C05Facts", Kind: "rangemap", Name: s.fn, Value: s.expr, Pos: s.file})
		}
		sb.WriteString("]\n")
		// second fact: every use of the PROCESS-GLOBAL math/rand source (rand.Seed, rand.Float64, rand.Intn, … — anything of package
		// math/rand except the constructors New / NewSource and type names) in the block-execution packages and in the candidate
		// election (types/candidate.go): a draw from the shared source depends on what other goroutines drew
		randFiles := append(append([]string{}, files...), "types/candidate.go")
		sort.Strings(randFiles)
		type rsite struct{ file, fn, call string }
		var rs []rsite
		for _, f := range randFiles {
			af := parsed[f]
			if af == nil {
				var err error
				if af, err = e.parse(f); err != nil {
					return "", err
				}
			}
			alias := ""
			for _, im := range af.Imports {
				if im.Path.Value == "\"math/rand\"" {
					alias = "rand"
					if im.Name != nil {
						alias = im.Name.Name
					}
				}
			}
			if alias == "" {
				continue
			}
			for _, d := range af.Decls {
				fd, ok := d.(*ast.FuncDecl)
				if !ok || fd.Body == nil {
					continue
				}
				name := fd.Name.Name
				if fd.Recv != nil && len(fd.Recv.List) == 1 {
					t := fd.Recv.List[0].Type
					if st, ok := t.(*ast.StarExpr); ok {
						t = st.X
					}
					if id, ok := t.(*ast.Ident); ok {
						name = id.Name + "." + name
					}
				}
				ast.Inspect(fd.Body, func(n ast.Node) bool {
					ce, ok := n.(*ast.CallExpr)
					if !ok {
						return true
					}
					if se, ok := ce.Fun.(*ast.SelectorExpr); ok {
						if id, ok := se.X.(*ast.Ident); ok && id.Name == alias && id.Obj == nil && se.Sel.Name != "New" && se.Sel.Name != "NewSource" {
							rs = append(rs, rsite{f, name, alias + "." + se.Sel.Name})
						}
					}
					return true
				})
			}
		}
		sb.WriteString("\n/-- every call of the process-global math/rand source in the block-execution packages and the candidate election: (file, function, call) -/\n")
		sb.WriteString("def globalRandSites : List (String × String × String) := [\n")
		for i, s := range rs {
			sep := ","
			if i == len(rs)-1 {
				sep = ""
			}
			sb.WriteString(fmt.Sprintf("  (%s, %s, %s)%s\n", c02Str(s.file), c02Str(s.fn), c02Str(s.call), sep))
			e.facts = append(e.facts, fact{Module: "C05Facts", Kind: "globalrand", Name: s.fn, Value: s.call, Pos: s.file})
		}
		sb.WriteString("]\n")
		return sb.String(), nil
	})
}
