package main

// C15 (T2): the locking discipline of mempool.Mempool, rendered as Lean data.
//   - for every exported method of *Mempool in mempool/mempool.go: does it (transitively, through methods of the same
//     receiver) mutate goodTxs / utxoTxs / specGoodTxs / futureTxs / futureTxsCount, does it read them, and does its own
//     body take proxyMtx (`<recv>.proxyMtx.Lock()` as a statement, released by defer or by an explicit Unlock);
//   - LinkApplication.CommitBlock calls mempool.Update between mempool.Lock() and mempool.Unlock();
//   - the cache methods (*Mempool).GetTxFromCache calls (must be CheckAndGet: only basic-checked entries are hits).

import (
	"fmt"
	"go/ast"
	"go/token"
	"sort"
	"strings"
)

func init() { register("MempoolLocks", c15Facts) }

var c15Queues = map[string]bool{"goodTxs": true, "utxoTxs": true, "specGoodTxs": true, "futureTxs": true, "futureTxsCount": true}

func c15IsQueueSel(x ast.Expr, recv string) bool {
	for {
		switch v := x.(type) {
		case *ast.IndexExpr:
			x = v.X
			continue
		case *ast.SelectorExpr:
			if id, ok := v.X.(*ast.Ident); ok && id.Name == recv && c15Queues[v.Sel.Name] {
				return true
			}
			return false
		default:
			return false
		}
	}
}

func c15Facts(e *env) (string, error) {
	f, err := e.parse("mempool/mempool.go")
	if err != nil {
		return "", err
	}
	type info struct {
		recv           string
		calls          map[string]bool
		mutates, reads bool
		locks          bool
		exported       bool
	}
	methods := map[string]*info{}
	for _, d := range f.Decls {
		fd, ok := d.(*ast.FuncDecl)
		if !ok || fd.Recv == nil || len(fd.Recv.List) != 1 || fd.Body == nil {
			continue
		}
		st, ok := fd.Recv.List[0].Type.(*ast.StarExpr)
		if !ok {
			continue
		}
		if id, ok := st.X.(*ast.Ident); !ok || id.Name != "Mempool" {
			continue
		}
		if len(fd.Recv.List[0].Names) != 1 {
			continue
		}
		recv := fd.Recv.List[0].Names[0].Name
		in := &info{recv: recv, calls: map[string]bool{}, exported: ast.IsExported(fd.Name.Name)}
		ast.Inspect(fd.Body, func(n ast.Node) bool {
			switch v := n.(type) {
			case *ast.SelectorExpr:
				if id, ok := v.X.(*ast.Ident); ok && id.Name == recv {
					if c15Queues[v.Sel.Name] {
						in.reads = true
					}
					in.calls[v.Sel.Name] = true // a call or a method value (addFunc = mem.addLocalTx)
				}
			case *ast.CallExpr:
				if sel, ok := v.Fun.(*ast.SelectorExpr); ok {
					if id, ok := sel.X.(*ast.Ident); ok && id.Name == recv {
						in.calls[sel.Sel.Name] = true
					}
					// <recv>.<queue>.PushBack / Remove / Add / Forward / Ready / Cap (also through an index)
					switch sel.Sel.Name {
					case "PushBack", "PushFront", "Remove", "Add", "Forward", "Ready", "Cap", "Filter":
						if c15IsQueueSel(sel.X, recv) {
							in.mutates = true
						}
					}
				}
				if id, ok := v.Fun.(*ast.Ident); ok && id.Name == "delete" && len(v.Args) > 0 && c15IsQueueSel(v.Args[0], recv) {
					in.mutates = true
				}
			case *ast.AssignStmt:
				for _, l := range v.Lhs {
					if c15IsQueueSel(l, recv) {
						in.mutates = true
					}
				}
			case *ast.IncDecStmt:
				if c15IsQueueSel(v.X, recv) {
					in.mutates = true
				}
			case *ast.ExprStmt:
				if c, ok := v.X.(*ast.CallExpr); ok {
					if sel, ok := c.Fun.(*ast.SelectorExpr); ok && sel.Sel.Name == "Lock" {
						if s2, ok := sel.X.(*ast.SelectorExpr); ok && s2.Sel.Name == "proxyMtx" {
							if id, ok := s2.X.(*ast.Ident); ok && id.Name == recv {
								in.locks = true
							}
						}
					}
				}
			}
			return true
		})
		methods[fd.Name.Name] = in
	}
	if len(methods) == 0 || methods["AddTx"] == nil || methods["Update"] == nil || methods["Reap"] == nil {
		return "", fmt.Errorf("anchor function not found: mempool/mempool.go: (*Mempool).AddTx/Update/Reap")
	}
	// transitive closure over calls on the receiver; a local variable aliasing a queue (list := mem.futureTxs[addr]) is
	// covered because the alias is taken by reading the queue field in the same body and the primitive mutators
	// (promoteExecutables, removeFutureTx, addTofutureTxs) also assign futureTxsCount / delete from futureTxs directly
	changed := true
	for changed {
		changed = false
		for _, in := range methods {
			for c := range in.calls {
				if m, ok := methods[c]; ok {
					if m.mutates && !in.mutates {
						in.mutates, changed = true, true
					}
					if m.reads && !in.reads {
						in.reads, changed = true, true
					}
				}
			}
		}
	}
	var names []string
	for n, in := range methods {
		if in.exported && (in.mutates || in.reads) {
			names = append(names, n)
		}
	}
	sort.Strings(names)
	var items []string
	for _, n := range names {
		in := methods[n]
		items = append(items, fmt.Sprintf("(%q, %v, %v)", n, in.mutates, in.locks))
	}
	var sb strings.Builder
	fmt.Fprintf(&sb, "/-- exported methods of `*Mempool` (mempool/mempool.go) that reach goodTxs/utxoTxs/specGoodTxs/futureTxs/futureTxsCount:\n(name, mutates one of them transitively, takes proxyMtx in its own body) -/\ndef exportedQueueMethods : List (String × Bool × Bool) :=\n  [%s]\n\n", strings.Join(items, ", "))

	// CommitBlock: mempool.Lock() ... mempool.Update(...) ... mempool.Unlock()
	fd, err := e.funcDecl("app/app.go", "LinkApplication", "CommitBlock")
	if err != nil {
		return "", err
	}
	var lockPos, updPos, unlockPos token.Pos
	nUpd := 0
	ast.Inspect(fd.Body, func(n ast.Node) bool {
		c, ok := n.(*ast.CallExpr)
		if !ok {
			return true
		}
		sel, ok := c.Fun.(*ast.SelectorExpr)
		if !ok {
			return true
		}
		s2, ok := sel.X.(*ast.SelectorExpr)
		if !ok || s2.Sel.Name != "mempool" {
			return true
		}
		switch sel.Sel.Name {
		case "Lock":
			if lockPos == 0 {
				lockPos = c.Pos()
			}
		case "Update":
			updPos = c.Pos()
			nUpd++
		case "Unlock":
			unlockPos = c.Pos()
		}
		return true
	})
	bracketed := nUpd == 1 && lockPos != 0 && unlockPos != 0 && lockPos < updPos && updPos < unlockPos
	fmt.Fprintf(&sb, "/-- `LinkApplication.CommitBlock` (app/app.go) calls `mempool.Update` exactly once, after `mempool.Lock()` and before `mempool.Unlock()` -/\ndef commitBlockBracketsUpdate : Bool := %v\n", bracketed)
	// GetTxFromCache: which cache methods does it call
	var gfd *ast.FuncDecl
	for _, d := range f.Decls {
		if fd, ok := d.(*ast.FuncDecl); ok && fd.Recv != nil && fd.Name.Name == "GetTxFromCache" && fd.Body != nil {
			gfd = fd
		}
	}
	if gfd == nil {
		return "", fmt.Errorf("anchor function not found: mempool/mempool.go: (*Mempool).GetTxFromCache")
	}
	var calls []string
	ast.Inspect(gfd.Body, func(n ast.Node) bool {
		c, ok := n.(*ast.CallExpr)
		if !ok {
			return true
		}
		if sel, ok := c.Fun.(*ast.SelectorExpr); ok {
			if s2, ok := sel.X.(*ast.SelectorExpr); ok && s2.Sel.Name == "cache" {
				calls = append(calls, fmt.Sprintf("%q", sel.Sel.Name))
			}
		}
		return true
	})
	sort.Strings(calls)
	fmt.Fprintf(&sb, "\n/-- the methods of the dedup cache `(*Mempool).GetTxFromCache` calls (mempool/mempool.go) -/\ndef getTxFromCacheCalls : List String := [%s]\n", strings.Join(calls, ", "))
	return sb.String(), nil
}
