package main

// C04: types/priv_validator.go
//   T1  (FilePV).checkHRS translated as a function of the receiver's record fields:
//         pv.<IntField>            -> parameter pv_<IntField>
//         pv.<Field> ==/!= nil     -> Boolean parameter pv_<Field>_isNil
//         result type error        -> Int code: nil = 0, errors.New("<text>") = 1 + index of <text> in errTexts,
//                                     a panic(...) statement = return (zero values..., -1)
//       voteToStep translated with the switch rewritten as an if-chain over the package constants
//   T2  who calls SignVoteWithoutSave outside tests; the order of check / sign / saveSigned / signature assignment
//       in signVote and signProposal; the vote-type and step constants

import (
	"bytes"
	"fmt"
	"go/ast"
	"go/token"
	"os"
	"path/filepath"
	"sort"
	"strconv"
	"strings"
)

const c04File = "types/priv_validator.go"

type methodRewriter struct {
	e        *env
	recv     string            // receiver identifier
	fields   map[string]string // struct field -> Go type text ("" if not a plain identifier type)
	params   []*ast.Field      // synthesized parameters for receiver fields, in order of first use
	seen     map[string]bool
	errTexts []string
	results  []string // result kinds: "bool", "int", "error"
	err      error
}

func (m *methodRewriter) fail(n ast.Node, format string, a ...interface{}) {
	if m.err == nil {
		m.err = fmt.Errorf("go2lean refuses: %s: %s", m.e.pos(n), fmt.Sprintf(format, a...))
	}
}

func (m *methodRewriter) param(name, typ string) *ast.Ident {
	if !m.seen[name] {
		m.seen[name] = true
		m.params = append(m.params, &ast.Field{Names: []*ast.Ident{ast.NewIdent(name)}, Type: ast.NewIdent(typ)})
	}
	return ast.NewIdent(name)
}

func isNilIdent(e ast.Expr) bool {
	id, ok := e.(*ast.Ident)
	return ok && id.Name == "nil"
}

func (m *methodRewriter) recvField(e ast.Expr) (string, bool) {
	se, ok := e.(*ast.SelectorExpr)
	if !ok {
		return "", false
	}
	id, ok := se.X.(*ast.Ident)
	if !ok || id.Name != m.recv {
		return "", false
	}
	return se.Sel.Name, true
}

func (m *methodRewriter) expr(e ast.Expr) ast.Expr {
	switch x := e.(type) {
	case *ast.ParenExpr:
		return &ast.ParenExpr{X: m.expr(x.X)}
	case *ast.Ident, *ast.BasicLit:
		return e
	case *ast.UnaryExpr:
		return &ast.UnaryExpr{Op: x.Op, X: m.expr(x.X)}
	case *ast.BinaryExpr:
		// pv.F == nil / pv.F != nil
		if f, ok := m.recvField(x.X); ok && isNilIdent(x.Y) && (x.Op == token.EQL || x.Op == token.NEQ) {
			if _, known := m.fields[f]; !known {
				m.fail(x, "unknown receiver field %s", f)
				return e
			}
			id := m.param(m.recv+"_"+f+"_isNil", "bool")
			if x.Op == token.EQL {
				return id
			}
			return &ast.UnaryExpr{Op: token.NOT, X: id}
		}
		return &ast.BinaryExpr{X: m.expr(x.X), Op: x.Op, Y: m.expr(x.Y)}
	case *ast.SelectorExpr:
		if f, ok := m.recvField(x); ok {
			t := m.fields[f]
			if kindOfType(ast.NewIdent(t)) == "" || t == "bool" && false {
				m.fail(x, "receiver field %s of type %q used outside a nil comparison", f, t)
				return e
			}
			return m.param(m.recv+"_"+f, t)
		}
		return e
	case *ast.CallExpr:
		args := make([]ast.Expr, len(x.Args))
		for i, a := range x.Args {
			args[i] = m.expr(a)
		}
		return &ast.CallExpr{Fun: x.Fun, Args: args}
	}
	m.fail(e, "expression %T not in the method subset", e)
	return e
}

func (m *methodRewriter) errCode(e ast.Expr) ast.Expr {
	if isNilIdent(e) {
		return &ast.BasicLit{Kind: token.INT, Value: "0"}
	}
	if c, ok := e.(*ast.CallExpr); ok && len(c.Args) == 1 {
		if se, ok := c.Fun.(*ast.SelectorExpr); ok {
			if p, ok := se.X.(*ast.Ident); ok && p.Name == "errors" && se.Sel.Name == "New" {
				if lit, ok := c.Args[0].(*ast.BasicLit); ok && lit.Kind == token.STRING {
					s, _ := strconv.Unquote(lit.Value)
					for i, t := range m.errTexts {
						if t == s {
							return &ast.BasicLit{Kind: token.INT, Value: strconv.Itoa(i + 1)}
						}
					}
					m.errTexts = append(m.errTexts, s)
					return &ast.BasicLit{Kind: token.INT, Value: strconv.Itoa(len(m.errTexts))}
				}
			}
		}
	}
	m.fail(e, "error result is neither nil nor errors.New(\"literal\")")
	return e
}

func (m *methodRewriter) zero(kind string) ast.Expr {
	if kind == "bool" {
		return ast.NewIdent("false")
	}
	return &ast.BasicLit{Kind: token.INT, Value: "0"}
}

func (m *methodRewriter) stmts(in []ast.Stmt) []ast.Stmt {
	var out []ast.Stmt
	for _, s := range in {
		switch st := s.(type) {
		case *ast.ReturnStmt:
			if len(st.Results) != len(m.results) {
				m.fail(st, "return arity")
				return out
			}
			rs := make([]ast.Expr, len(st.Results))
			for i, r := range st.Results {
				if m.results[i] == "error" {
					rs[i] = m.errCode(r)
				} else {
					rs[i] = m.expr(r)
				}
			}
			out = append(out, &ast.ReturnStmt{Results: rs})
		case *ast.IfStmt:
			if st.Init != nil {
				m.fail(st, "if with init")
				return out
			}
			n := &ast.IfStmt{Cond: m.expr(st.Cond), Body: &ast.BlockStmt{List: m.stmts(st.Body.List)}}
			switch el := st.Else.(type) {
			case nil:
			case *ast.BlockStmt:
				n.Else = &ast.BlockStmt{List: m.stmts(el.List)}
			case *ast.IfStmt:
				r := m.stmts([]ast.Stmt{el})
				if len(r) == 1 {
					n.Else = r[0]
				}
			default:
				m.fail(st, "else form")
			}
			out = append(out, n)
		case *ast.ExprStmt:
			if c, ok := st.X.(*ast.CallExpr); ok {
				if id, ok := c.Fun.(*ast.Ident); ok && id.Name == "panic" {
					rs := make([]ast.Expr, len(m.results))
					for i, k := range m.results {
						if k == "error" {
							rs[i] = &ast.UnaryExpr{Op: token.SUB, X: &ast.BasicLit{Kind: token.INT, Value: "1"}}
						} else {
							rs[i] = m.zero(k)
						}
					}
					out = append(out, &ast.ReturnStmt{Results: rs})
					continue
				}
			}
			m.fail(st, "expression statement not in the method subset")
		default:
			m.fail(s, "statement %T not in the method subset", s)
		}
	}
	return out
}

func structFields(f *ast.File, name string) map[string]string {
	out := map[string]string{}
	for _, d := range f.Decls {
		gd, ok := d.(*ast.GenDecl)
		if !ok {
			continue
		}
		for _, sp := range gd.Specs {
			ts, ok := sp.(*ast.TypeSpec)
			if !ok || ts.Name.Name != name {
				continue
			}
			st, ok := ts.Type.(*ast.StructType)
			if !ok {
				continue
			}
			for _, fl := range st.Fields.List {
				t := ""
				if id, ok := fl.Type.(*ast.Ident); ok {
					t = id.Name
				}
				for _, n := range fl.Names {
					out[n.Name] = t
				}
			}
		}
	}
	return out
}

// intConsts: package-level constants whose value is an integer literal, possibly inside a conversion T(lit)
func intConsts(f *ast.File) map[string]string {
	out := map[string]string{}
	for _, d := range f.Decls {
		gd, ok := d.(*ast.GenDecl)
		if !ok || gd.Tok != token.CONST {
			continue
		}
		for _, sp := range gd.Specs {
			vs, ok := sp.(*ast.ValueSpec)
			if !ok || len(vs.Values) != len(vs.Names) {
				continue
			}
			for i, n := range vs.Names {
				v := vs.Values[i]
				if c, ok := v.(*ast.CallExpr); ok && len(c.Args) == 1 {
					v = c.Args[0]
				}
				if lit, ok := v.(*ast.BasicLit); ok && lit.Kind == token.INT {
					if x, err := strconv.ParseInt(lit.Value, 0, 64); err == nil {
						out[n.Name] = strconv.FormatInt(x, 10)
					}
				}
			}
		}
	}
	return out
}

func leanStr(s string) string { return strconv.Quote(s) }

func leanStrList(xs []string) string {
	q := make([]string, len(xs))
	for i, x := range xs {
		q[i] = leanStr(x)
	}
	return "[" + strings.Join(q, ", ") + "]"
}

// translateCheckHRS: the method as a function of the record fields
func translateCheckHRS(e *env) (string, []string, error) {
	f, err := e.parse(c04File)
	if err != nil {
		return "", nil, err
	}
	fd, err := e.funcDecl(c04File, "FilePV", "checkHRS")
	if err != nil {
		return "", nil, err
	}
	m := &methodRewriter{e: e, fields: structFields(f, "FilePV"), seen: map[string]bool{}}
	if fd.Recv == nil || len(fd.Recv.List) != 1 || len(fd.Recv.List[0].Names) != 1 {
		return "", nil, fmt.Errorf("go2lean refuses: checkHRS receiver form")
	}
	m.recv = fd.Recv.List[0].Names[0].Name
	var resFields []*ast.Field
	if fd.Type.Results == nil {
		return "", nil, fmt.Errorf("go2lean refuses: checkHRS has no result")
	}
	for _, r := range fd.Type.Results.List {
		id, ok := r.Type.(*ast.Ident)
		if !ok {
			return "", nil, fmt.Errorf("go2lean refuses: checkHRS result type")
		}
		n := len(r.Names)
		if n == 0 {
			n = 1
		}
		for i := 0; i < n; i++ {
			if id.Name == "error" {
				m.results = append(m.results, "error")
				resFields = append(resFields, &ast.Field{Type: ast.NewIdent("int")})
			} else {
				m.results = append(m.results, id.Name)
				resFields = append(resFields, &ast.Field{Type: ast.NewIdent(id.Name)})
			}
		}
	}
	body := m.stmts(fd.Body.List)
	if m.err != nil {
		return "", nil, m.err
	}
	// fixed parameter order: record fields (sorted by name), then the method's own parameters
	sort.SliceStable(m.params, func(i, j int) bool { return m.params[i].Names[0].Name < m.params[j].Names[0].Name })
	params := append(append([]*ast.Field{}, m.params...), fd.Type.Params.List...)
	nfd := &ast.FuncDecl{Name: ast.NewIdent("checkHRS"), Type: &ast.FuncType{Params: &ast.FieldList{List: params}, Results: &ast.FieldList{List: resFields}},
		Body: &ast.BlockStmt{List: body}}
	c := &t1ctx{fset: e.fset, known: map[string]bool{}, consts: nil}
	s, err := c.translateFunc(nfd)
	if err != nil {
		return "", nil, err
	}
	var pn []string
	for _, p := range params {
		for _, n := range p.Names {
			pn = append(pn, n.Name)
		}
	}
	return "/-- translated from `" + e.pos(fd) + "` (method of FilePV as a function of its record fields; parameters: " + strings.Join(pn, ", ") +
		"; second result: 0 = nil, k>0 = errTexts[k-1], -1 = panic) -/\n" + s + "\n/-- the error texts of checkHRS, in source order -/\ndef errTexts : List String := " + leanStrList(m.errTexts) + "\n", pn, nil
}

// translateVoteToStep: switch over vote.Type with constant cases -> if chain; panic/PanicSanity -> -1
func translateVoteToStep(e *env) (string, error) {
	f, err := e.parse(c04File)
	if err != nil {
		return "", err
	}
	fv, err := e.parse("types/vote.go")
	if err != nil {
		return "", err
	}
	consts := intConsts(f)
	for k, v := range intConsts(fv) {
		consts[k] = v
	}
	fd, err := e.funcDecl(c04File, "", "voteToStep")
	if err != nil {
		return "", err
	}
	if len(fd.Body.List) != 1 {
		return "", fmt.Errorf("go2lean refuses: %s: voteToStep is not a single switch", e.pos(fd))
	}
	sw, ok := fd.Body.List[0].(*ast.SwitchStmt)
	if !ok || sw.Init != nil {
		return "", fmt.Errorf("go2lean refuses: %s: voteToStep is not a single switch", e.pos(fd))
	}
	tag, ok := sw.Tag.(*ast.SelectorExpr)
	if !ok || tag.Sel.Name != "Type" {
		return "", fmt.Errorf("go2lean refuses: %s: switch tag is not <vote>.Type", e.pos(sw))
	}
	val := func(x ast.Expr) (string, error) {
		switch v := x.(type) {
		case *ast.Ident:
			if c, ok := consts[v.Name]; ok {
				return c, nil
			}
		case *ast.BasicLit:
			if v.Kind == token.INT {
				return v.Value, nil
			}
		}
		return "", fmt.Errorf("go2lean refuses: %s: value is not an integer constant of the package", e.pos(x))
	}
	var sb strings.Builder
	sb.WriteString("/-- translated from `" + e.pos(fd) + "`: the step of a vote of type `voteType`; -1 = panic -/\ndef voteToStep (voteType : Int) : Int :=\n")
	def := "(-1 : Int)"
	depth := 1
	for _, cs := range sw.Body.List {
		cc := cs.(*ast.CaseClause)
		var result string
		if len(cc.Body) == 0 {
			return "", fmt.Errorf("go2lean refuses: %s: empty case (fallthrough semantics)", e.pos(cc))
		}
		switch st := cc.Body[0].(type) {
		case *ast.ReturnStmt:
			if len(st.Results) != 1 {
				return "", fmt.Errorf("go2lean refuses: %s: return arity", e.pos(st))
			}
			v, err := val(st.Results[0])
			if err != nil {
				return "", err
			}
			result = "(" + v + " : Int)"
		case *ast.ExprStmt:
			txt := ""
			if c, ok := st.X.(*ast.CallExpr); ok {
				switch fn := c.Fun.(type) {
				case *ast.Ident:
					txt = fn.Name
				case *ast.SelectorExpr:
					txt = fn.Sel.Name
				}
			}
			if txt != "panic" && !strings.HasPrefix(txt, "Panic") {
				return "", fmt.Errorf("go2lean refuses: %s: case body is neither return nor panic", e.pos(st))
			}
			result = "(-1 : Int)"
		default:
			return "", fmt.Errorf("go2lean refuses: %s: case body %T", e.pos(cc), cc.Body[0])
		}
		if cc.List == nil {
			def = result
			continue
		}
		var conds []string
		for _, x := range cc.List {
			v, err := val(x)
			if err != nil {
				return "", err
			}
			conds = append(conds, "decide (voteType = ("+v+" : Int))")
		}
		sb.WriteString(ind(depth) + "if " + strings.Join(conds, " || ") + " then " + result + " else\n")
	}
	sb.WriteString(ind(depth) + def + "\n")
	for _, k := range []string{"stepNone", "stepPropose", "stepPrevote", "stepPrecommit", "VoteTypePrevote", "VoteTypePrecommit"} {
		v, ok := consts[k]
		if !ok {
			return "", fmt.Errorf("anchor constant not found: %s", k)
		}
		sb.WriteString(fmt.Sprintf("\ndef %s : Int := %s\n", k, v))
	}
	return sb.String(), nil
}

// signOrder: the notable events of a signing function in source order
func signOrder(e *env, fn, target string) ([]string, error) {
	fd, err := e.funcDecl(c04File, "FilePV", fn)
	if err != nil {
		return nil, err
	}
	var evs []string
	callName := func(c *ast.CallExpr) string {
		var parts []string
		x := c.Fun
		for {
			switch v := x.(type) {
			case *ast.SelectorExpr:
				parts = append([]string{v.Sel.Name}, parts...)
				x = v.X
				continue
			case *ast.Ident:
				parts = append([]string{v.Name}, parts...)
			}
			break
		}
		return strings.Join(parts, ".")
	}
	var walk func(n ast.Node, guard string)
	walk = func(n ast.Node, guard string) {
		ast.Inspect(n, func(x ast.Node) bool {
			switch v := x.(type) {
			case *ast.IfStmt:
				g := guard
				if id, ok := v.Cond.(*ast.Ident); ok {
					g = id.Name
				}
				if v.Init != nil {
					walk(v.Init, guard)
				}
				walk(v.Cond, guard)
				walk(v.Body, g)
				if v.Else != nil {
					walk(v.Else, guard)
				}
				return false
			case *ast.AssignStmt:
				for _, r := range v.Rhs {
					walk(r, guard)
				}
				for i, l := range v.Lhs {
					if se, ok := l.(*ast.SelectorExpr); ok {
						if id, ok := se.X.(*ast.Ident); ok && id.Name == target && se.Sel.Name == "Signature" {
							src := "other"
							if i < len(v.Rhs) {
								switch r := v.Rhs[i].(type) {
								case *ast.Ident:
									src = r.Name
								case *ast.SelectorExpr:
									src = r.Sel.Name
								}
							}
							evs = append(evs, "assign:"+src)
						}
					}
				}
				return false
			case *ast.CallExpr:
				for _, a := range v.Args {
					walk(a, guard)
				}
				name := callName(v)
				switch {
				case strings.HasSuffix(name, ".checkHRS"):
					evs = append(evs, "checkHRS")
				case strings.HasSuffix(name, ".PrivKey.Sign"):
					evs = append(evs, "sign")
				case strings.HasSuffix(name, ".saveSigned"):
					if guard != "" && guard != "sameHRS" {
						evs = append(evs, "saveSigned?"+guard)
					} else {
						evs = append(evs, "saveSigned")
					}
				case strings.HasSuffix(name, ".save") || strings.HasSuffix(name, ".Save"):
					evs = append(evs, "save")
				}
				return false
			}
			return true
		})
	}
	walk(fd.Body, "")
	return evs, nil
}

// nonTestCallers: files (outside vendor/ and *_test.go) containing a call x.<method>(...)
func nonTestCallers(e *env, method string) ([]string, error) {
	var out []string
	err := filepath.Walk(e.repo, func(p string, info os.FileInfo, err error) error {
		if err != nil {
			return nil
		}
		if info.IsDir() {
			b := info.Name()
			if b == "vendor" || b == ".git" || b == "node_modules" {
				return filepath.SkipDir
			}
			return nil
		}
		if !strings.HasSuffix(p, ".go") || strings.HasSuffix(p, "_test.go") {
			return nil
		}
		src, err := os.ReadFile(p)
		if err != nil || !bytes.Contains(src, []byte(method)) {
			return nil
		}
		rel, _ := filepath.Rel(e.repo, p)
		f, err := e.parse(rel)
		if err != nil {
			return fmt.Errorf("cannot parse %s: %v", rel, err)
		}
		ast.Inspect(f, func(n ast.Node) bool {
			if c, ok := n.(*ast.CallExpr); ok {
				if se, ok := c.Fun.(*ast.SelectorExpr); ok && se.Sel.Name == method {
					out = append(out, e.pos(c))
				}
			}
			return true
		})
		return nil
	})
	sort.Strings(out)
	return out, err
}

// saveSignedEvents: the assignments "<lhs>=<rhs>" and calls "call:<callee>" of saveSigned in source order
// (the `if pv.pv == nil { pv.pv = pv.Copy() }` guard contributes "pv.pv=pv.Copy()")
func saveSignedEvents(e *env) ([]string, error) {
	fd, err := e.funcDecl(c04File, "FilePV", "saveSigned")
	if err != nil {
		return nil, err
	}
	var txt func(x ast.Expr) string
	txt = func(x ast.Expr) string {
		switch v := x.(type) {
		case *ast.Ident:
			return v.Name
		case *ast.SelectorExpr:
			return txt(v.X) + "." + v.Sel.Name
		case *ast.CallExpr:
			return txt(v.Fun) + "()"
		}
		return "?"
	}
	var evs []string
	ast.Inspect(fd.Body, func(n ast.Node) bool {
		switch v := n.(type) {
		case *ast.AssignStmt:
			for i, l := range v.Lhs {
				if i < len(v.Rhs) {
					evs = append(evs, txt(l)+"="+txt(v.Rhs[i]))
				}
			}
			return false
		case *ast.ExprStmt:
			if c, ok := v.X.(*ast.CallExpr); ok {
				evs = append(evs, "call:"+txt(c.Fun))
			}
			return false
		case *ast.GoStmt:
			evs = append(evs, "go:"+txt(v.Call.Fun))
			return false
		case *ast.DeferStmt:
			evs = append(evs, "defer:"+txt(v.Call.Fun))
			return false
		}
		return true
	})
	return evs, nil
}

// writePathCalls: every call `x.M(...)` / `pkg.F(...)` in WriteFileAtomic (libs/common/os.go) in source order, tagged by what
// happens to its error result:
//
//	checked:<callee>   assigned to a variable named err (if-init or plain assignment; the function tests it right after)
//	returned:<callee>  returned to the caller
//	unchecked:<callee> expression statement: the result is dropped
//	dropped:<callee>   assigned, but the error position is `_`
//	defer:<callee> / go:<callee>
func writePathCalls(e *env) ([]string, error) {
	fd, err := e.funcDecl("libs/common/os.go", "", "WriteFileAtomic")
	if err != nil {
		return nil, err
	}
	var txt func(x ast.Expr) string
	txt = func(x ast.Expr) string {
		switch v := x.(type) {
		case *ast.Ident:
			return v.Name
		case *ast.SelectorExpr:
			return txt(v.X) + "." + v.Sel.Name
		case *ast.CallExpr:
			return txt(v.Fun) + "()"
		}
		return "?"
	}
	isSelCall := func(x ast.Expr) (*ast.CallExpr, bool) {
		c, ok := x.(*ast.CallExpr)
		if !ok {
			return nil, false
		}
		_, ok = c.Fun.(*ast.SelectorExpr)
		return c, ok
	}
	var evs []string
	seen := map[*ast.CallExpr]bool{}
	ast.Inspect(fd.Body, func(n ast.Node) bool {
		switch v := n.(type) {
		case *ast.AssignStmt:
			for _, r := range v.Rhs {
				if c, ok := isSelCall(r); ok {
					seen[c] = true
					hasErr := false
					for _, l := range v.Lhs {
						if id, ok := l.(*ast.Ident); ok && id.Name == "err" {
							hasErr = true
						}
					}
					if hasErr {
						evs = append(evs, "checked:"+txt(c.Fun))
					} else {
						evs = append(evs, "dropped:"+txt(c.Fun))
					}
				}
			}
		case *ast.ReturnStmt:
			for _, r := range v.Results {
				if c, ok := isSelCall(r); ok {
					seen[c] = true
					evs = append(evs, "returned:"+txt(c.Fun))
				}
			}
		case *ast.ExprStmt:
			if c, ok := isSelCall(v.X); ok {
				seen[c] = true
				evs = append(evs, "unchecked:"+txt(c.Fun))
			}
		case *ast.DeferStmt:
			seen[v.Call] = true
			evs = append(evs, "defer:"+txt(v.Call.Fun))
		case *ast.GoStmt:
			seen[v.Call] = true
			evs = append(evs, "go:"+txt(v.Call.Fun))
		case *ast.CallExpr:
			if _, ok := v.Fun.(*ast.SelectorExpr); ok && !seen[v] {
				seen[v] = true
				evs = append(evs, "nested:"+txt(v.Fun))
			}
		}
		return true
	})
	return evs, nil
}

// callerFiles: the files (outside vendor/ and *_test.go) that contain a call x.<method>(...); with mustContain != "" only
// files whose text contains it are considered (for method names shared with other types)
func callerFiles(e *env, method, mustContain string) ([]string, error) {
	seen := map[string]bool{}
	err := filepath.Walk(e.repo, func(p string, info os.FileInfo, err error) error {
		if err != nil {
			return nil
		}
		if info.IsDir() {
			b := info.Name()
			if b == "vendor" || b == ".git" || b == "node_modules" {
				return filepath.SkipDir
			}
			return nil
		}
		if !strings.HasSuffix(p, ".go") || strings.HasSuffix(p, "_test.go") {
			return nil
		}
		src, err := os.ReadFile(p)
		if err != nil || !bytes.Contains(src, []byte(method)) || (mustContain != "" && !bytes.Contains(src, []byte(mustContain))) {
			return nil
		}
		rel, _ := filepath.Rel(e.repo, p)
		f, err := e.parse(rel)
		if err != nil {
			return fmt.Errorf("cannot parse %s: %v", rel, err)
		}
		ast.Inspect(f, func(n ast.Node) bool {
			if c, ok := n.(*ast.CallExpr); ok {
				if se, ok := c.Fun.(*ast.SelectorExpr); ok && se.Sel.Name == method {
					if _, isIdent := se.X.(*ast.Ident); isIdent || mustContain == "" {
						// with mustContain (a shared method name) only calls on a plain variable count
						seen[filepath.ToSlash(rel)] = true
					}
				}
			}
			return true
		})
		return nil
	})
	var out []string
	for k := range seen {
		out = append(out, k)
	}
	sort.Strings(out)
	return out, err
}

func init() {
	register("FilePVCheck", func(e *env) (string, error) {
		var sb strings.Builder
		s, params, err := translateCheckHRS(e)
		if err != nil {
			return "", err
		}
		sb.WriteString(s)
		sb.WriteString("\n/-- parameter order of the translated checkHRS -/\ndef checkHRSParams : List String := " + leanStrList(params) + "\n\n")
		v, err := translateVoteToStep(e)
		if err != nil {
			return "", err
		}
		sb.WriteString(v)
		for _, fn := range [][2]string{{"signVote", "vote"}, {"signProposal", "proposal"}} {
			evs, err := signOrder(e, fn[0], fn[1])
			if err != nil {
				return "", err
			}
			sb.WriteString(fmt.Sprintf("\n/-- `%s`: check / sign / save / signature-assignment events in source order -/\ndef %sEvents : List String := %s\n", fn[0], fn[0], leanStrList(evs)))
			e.facts = append(e.facts, fact{Module: "FilePVCheck", Kind: "callorder", Name: fn[0], Value: evs})
		}
		sevs, err := saveSignedEvents(e)
		if err != nil {
			return "", err
		}
		sb.WriteString("\n/-- `saveSigned`: assignments and calls in source order -/\ndef saveSignedEvents : List String := " + leanStrList(sevs) + "\n")
		e.facts = append(e.facts, fact{Module: "FilePVCheck", Kind: "callorder", Name: "saveSigned", Value: sevs})
		wevs, err := writePathCalls(e)
		if err != nil {
			return "", err
		}
		var triples []string
		for _, w := range wevs {
			tag, callee := w[:strings.Index(w, ":")], w[strings.Index(w, ":")+1:]
			recv, meth := "", callee
			if i := strings.LastIndex(callee, "."); i >= 0 {
				recv, meth = callee[:i], callee[i+1:]
			}
			triples = append(triples, "("+leanStr(tag)+", "+leanStr(recv)+", "+leanStr(meth)+")")
		}
		sb.WriteString("\n/-- `cmn.WriteFileAtomic`: every selector call in source order as (what happens to its error, receiver, function): checked = assigned to `err`, returned, unchecked = result dropped, dropped = error position `_`, defer, go, nested -/\ndef writeFileAtomicCalls : List (String × String × String) := [" + strings.Join(triples, ", ") + "]\n")
		e.facts = append(e.facts, fact{Module: "FilePVCheck", Kind: "callorder", Name: "WriteFileAtomic", Value: wevs})
		for _, m := range [][3]string{{"SignData", "", "signDataCallerFiles"}, {"SignHeartbeat", "", "signHeartbeatCallerFiles"},
			{"UpdatePrikey", "", "updatePrikeyCallerFiles"}, {"Reset", "FilePV", "resetCallerFiles"}} {
			fs, err := callerFiles(e, m[0], m[1])
			if err != nil {
				return "", err
			}
			sb.WriteString("\n/-- files outside vendor/ and *_test.go with a call of `" + m[0] + "` -/\ndef " + m[2] + " : List String := " + leanStrList(fs) + "\n")
			e.facts = append(e.facts, fact{Module: "FilePVCheck", Kind: "nocaller", Name: m[0], Value: fs})
		}
		callers, err := nonTestCallers(e, "SignVoteWithoutSave")
		if err != nil {
			return "", err
		}
		sb.WriteString("\n/-- call sites of `SignVoteWithoutSave` outside vendor/ and *_test.go -/\ndef signVoteWithoutSaveCallers : List String := " + leanStrList(callers) + "\n")
		e.facts = append(e.facts, fact{Module: "FilePVCheck", Kind: "nocaller", Name: "SignVoteWithoutSave", Value: callers})
		return sb.String(), nil
	})
}
