package main

// C13 (T2): the order of the durable steps of a block commit, and the pruning loops' guards and bounds, as they stand in the
// source: app.CommitBlock (state commit, balance records, block store, confidential-output store, mempool),
// BlockStore.SaveBlock (index/receipts goroutines, batch commit, height descriptor), UtxoStore.SaveUtxo / SaveUtxoOutputs,
// BlockStore.DeleteHistoricalData and ConsensusState.DeleteHistoricalData (early-return conditions and loop conditions).

import (
	"fmt"
	"go/ast"
	"strings"
)

// selCalls lists, in source order, the selector calls `<...>.<name>(…)` of body whose name is in want (function literals included).
func selCalls(body ast.Node, want map[string]bool) []string {
	var out []string
	ast.Inspect(body, func(x ast.Node) bool {
		if c, ok := x.(*ast.CallExpr); ok {
			if fn, ok := c.Fun.(*ast.SelectorExpr); ok && want[fn.Sel.Name] {
				out = append(out, fn.Sel.Name)
			}
		}
		return true
	})
	return out
}

func set(xs ...string) map[string]bool {
	m := map[string]bool{}
	for _, x := range xs {
		m[x] = true
	}
	return m
}

// loopFacts returns the conditions of the top-level if statements that return, and the conditions of the for loops, of a function.
func loopFacts(e *env, fd *ast.FuncDecl) (guards, loops []string) {
	for _, st := range fd.Body.List {
		switch s := st.(type) {
		case *ast.IfStmt:
			if len(s.Body.List) == 1 {
				if _, ok := s.Body.List[0].(*ast.ReturnStmt); ok {
					guards = append(guards, src(e, s.Cond))
				}
			}
		case *ast.ForStmt:
			loops = append(loops, src(e, s.Cond))
		}
	}
	return
}

func init() {
	register("C13Facts", func(e *env) (string, error) {
		var sb strings.Builder
		emit := func(name string, xs []string, pos string) {
			sb.WriteString(fmt.Sprintf("def %s : List String := %s  -- %s\n", name, c02StrList(xs), pos))
			e.facts = append(e.facts, fact{Module: "C13Facts", Kind: "order", Name: name, Value: xs, Pos: pos})
		}
		fd, err := e.funcDecl("app/app.go", "LinkApplication", "CommitBlock")
		if err != nil {
			return "", err
		}
		emit("commitBlockCalls", selCalls(fd.Body, set("Commit", "Save", "SaveBlock", "SaveUtxo", "Update")), e.pos(fd))
		fd, err = e.funcDecl("blockchain/store.go", "BlockStore", "SaveBlock")
		if err != nil {
			return "", err
		}
		emit("saveBlockCalls", selCalls(fd.Body, set("saveReceipts", "saveTxsResult", "SaveTxEntry", "Wait", "Commit", "Save", "SetSync")), e.pos(fd))
		fd, err = e.funcDecl("utxo/store.go", "UtxoStore", "SaveUtxo")
		if err != nil {
			return "", err
		}
		emit("saveUtxoCalls", selCalls(fd.Body, set("SaveKImages", "SaveUtxoOutputs")), e.pos(fd))
		fd, err = e.funcDecl("utxo/store.go", "UtxoStore", "SaveUtxoOutputs")
		if err != nil {
			return "", err
		}
		emit("saveOutputsCalls", selCalls(fd.Body, set("Commit", "saveTokenUtxoOutputSeq")), e.pos(fd))
		fd, err = e.funcDecl("consensus/new_status.go", "", "saveStatus")
		if err != nil {
			return "", err
		}
		var sc []string
		ast.Inspect(fd.Body, func(x ast.Node) bool {
			if c, ok := x.(*ast.CallExpr); ok {
				switch fn := c.Fun.(type) {
				case *ast.Ident:
					if strings.HasPrefix(fn.Name, "save") {
						sc = append(sc, fn.Name)
					}
				case *ast.SelectorExpr:
					if fn.Sel.Name == "SetSync" || fn.Sel.Name == "Set" {
						sc = append(sc, fn.Sel.Name+"("+src(e, c.Args[0])+")")
					}
				}
			}
			return true
		})
		emit("saveStatusCalls", sc, e.pos(fd))
		// kv mode: SaveWAL truncates the undo log, then persists the height; a trie's Commit appends its pre-images to the undo log
		// (saveWAL, fsynced) before it commits its batch; the startup switch on the persisted kv height
		fd, err = e.funcDecl("state/keyvalue.go", "wrappedDB", "SaveWAL")
		if err != nil {
			return "", err
		}
		var sw []string
		ast.Inspect(fd.Body, func(x ast.Node) bool {
			if c, ok := x.(*ast.CallExpr); ok {
				switch fn := c.Fun.(type) {
				case *ast.SelectorExpr:
					if fn.Sel.Name == "Truncate" {
						sw = append(sw, "Truncate")
					}
				case *ast.Ident:
					if fn.Name == "saveHeight" {
						sw = append(sw, "saveHeight")
					}
				}
			}
			return true
		})
		emit("saveWALCalls", sw, e.pos(fd))
		fd, err = e.funcDecl("state/keyvalue.go", "wrappedTrie", "Commit")
		if err != nil {
			return "", err
		}
		var kc []string
		for _, c := range selCalls(fd.Body, set("saveWAL", "Commit")) {
			if c == "Commit" && len(kc) == 0 {
				continue // the delegation to the old trie in trie mode (first statement, returns)
			}
			kc = append(kc, c)
		}
		emit("kvTrieCommitCalls", kc, e.pos(fd))
		fd, err = e.funcDecl("state/keyvalue.go", "", "NewKeyValueDBWithCache")
		if err != nil {
			return "", err
		}
		var cases []string
		ast.Inspect(fd.Body, func(x ast.Node) bool {
			if sw, ok := x.(*ast.SwitchStmt); ok {
				for _, st := range sw.Body.List {
					cc := st.(*ast.CaseClause)
					if len(cc.List) == 0 {
						cases = append(cases, "default")
					} else {
						cases = append(cases, src(e, cc.List[0]))
					}
				}
				return false
			}
			return true
		})
		emit("kvStartupCases", cases, e.pos(fd))
		// consensus side: finalizeCommit's order (application commit, WAL end-of-height marker, status) and the startup rule of
		// node.NewNode that rebuilds a status lagging one block behind the application
		fd, err = e.funcDecl("consensus/state.go", "ConsensusState", "finalizeCommit")
		if err != nil {
			return "", err
		}
		emit("finalizeCommitCalls", selCalls(fd.Body, set("CommitBlock", "WriteSync", "ApplyBlock", "updateToState")), e.pos(fd))
		fd, err = e.funcDecl("node/node.go", "", "NewNode")
		if err != nil {
			return "", err
		}
		var rebuild []string
		ast.Inspect(fd.Body, func(x ast.Node) bool {
			if ifs, ok := x.(*ast.IfStmt); ok && strings.Contains(src(e, ifs.Cond), "appHeight") {
				rebuild = append(rebuild, "if "+src(e, ifs.Cond))
				rebuild = append(rebuild, selCalls(ifs.Body, set("ApplyBlock", "LoadBlock", "LoadBlockMeta", "GetValidators"))...)
				return false
			}
			return true
		})
		emit("startupRebuild", rebuild, e.pos(fd))
		fd, err = e.funcDecl("consensus/execution.go", "BlockExecutor", "ApplyBlock")
		if err != nil {
			return "", err
		}
		emit("applyBlockCalls", selCalls(fd.Body, set("Update", "SaveStatus")), e.pos(fd))
		var idents []string
		ast.Inspect(fd.Body, func(x ast.Node) bool {
			if c, ok := x.(*ast.CallExpr); ok {
				if id, ok := c.Fun.(*ast.Ident); ok && (id.Name == "updateStatus" || id.Name == "SaveStatus" || id.Name == "validateBlock") {
					idents = append(idents, id.Name)
				}
			}
			return true
		})
		emit("applyBlockSteps", idents, e.pos(fd))
		fd, err = e.funcDecl("blockchain/store.go", "BlockStore", "DeleteHistoricalData")
		if err != nil {
			return "", err
		}
		g, l := loopFacts(e, fd)
		emit("pruneBlocksGuards", g, e.pos(fd))
		emit("pruneBlocksLoops", l, e.pos(fd))
		fd, err = e.funcDecl("consensus/state.go", "ConsensusState", "DeleteHistoricalData")
		if err != nil {
			return "", err
		}
		g, l = loopFacts(e, fd)
		emit("pruneStatusGuards", g, e.pos(fd))
		emit("pruneStatusLoops", l, e.pos(fd))
		// the deletions inside the status loop and their conditions
		var dels []string
		ast.Inspect(fd.Body, func(x ast.Node) bool {
			if f, ok := x.(*ast.ForStmt); ok {
				for _, st := range f.Body.List {
					switch s := st.(type) {
					case *ast.IfStmt:
						for _, c := range selCalls(s.Body, set("Delete")) {
							_ = c
							dels = append(dels, src(e, s.Cond)+" => "+src(e, s.Body.List[0]))
						}
					case *ast.ExprStmt:
						if len(selCalls(s, set("Delete"))) > 0 {
							dels = append(dels, "true => "+src(e, s))
						}
					}
				}
				return false
			}
			return true
		})
		emit("pruneStatusDeletes", dels, e.pos(fd))
		var assigns []string
		for _, st := range fd.Body.List {
			switch a := st.(type) {
			case *ast.AssignStmt:
				assigns = append(assigns, src(e, a))
			case *ast.IfStmt:
				if a.Init != nil && len(a.Body.List) == 1 {
					assigns = append(assigns, src(e, a.Init)+"; "+src(e, a.Cond)+" => "+src(e, a.Body.List[0]))
				}
			}
		}
		emit("pruneStatusAssigns", assigns, e.pos(fd))
		return sb.String(), nil
	})
}
