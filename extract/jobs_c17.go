package main

import (
	"fmt"
	"go/ast"
	"strings"
)

// C17: the clip arithmetic of types/validator_set.go (T1)
func init() {
	register("ValSetArith", t1Module("types/validator_set.go",
		[]string{"safeMul", "safeAdd", "safeSub", "safeMulClip", "safeAddClip", "safeSubClip"}, nil))
}

// C17 (T2): every place in consensus/ where a validator set is rotated (IncrementAccum): the function, how the rotated set was
// obtained (the defining assignment of the receiver, when it is a local variable) and the rotation count expression.
func init() {
	register("C17Facts", func(e *env) (string, error) {
		var rows []string
		for _, file := range []string{"consensus/state.go", "consensus/validation.go", "consensus/execution.go"} {
			f, err := e.parse(file)
			if err != nil {
				return "", err
			}
			for _, d := range f.Decls {
				fd, ok := d.(*ast.FuncDecl)
				if !ok || fd.Body == nil {
					continue
				}
				defs := map[string]string{}
				ast.Inspect(fd.Body, func(x ast.Node) bool {
					switch n := x.(type) {
					case *ast.AssignStmt:
						if len(n.Lhs) == 1 && len(n.Rhs) == 1 {
							if id, ok := n.Lhs[0].(*ast.Ident); ok {
								defs[id.Name] = src(e, n.Rhs[0])
							}
						}
					case *ast.CallExpr:
						if sel, ok := n.Fun.(*ast.SelectorExpr); ok && sel.Sel.Name == "IncrementAccum" && len(n.Args) == 1 {
							recv := src(e, sel.X)
							if id, ok := sel.X.(*ast.Ident); ok && defs[id.Name] != "" {
								recv = defs[id.Name]
							}
							rows = append(rows, fmt.Sprintf("  (%s, %s, %s)", c02Str(file+":"+fd.Name.Name), c02Str(recv), c02Str(src(e, n.Args[0]))))
							e.facts = append(e.facts, fact{Module: "C17Facts", Kind: "rotation", Name: fd.Name.Name, Value: []string{recv, src(e, n.Args[0])}, Pos: file})
						}
					}
					return true
				})
			}
		}
		return "/-- (function, the set that is rotated, rotation count) for every IncrementAccum call in consensus/ -/\ndef rotationSites : List (String × String × String) := [\n" +
			strings.Join(rows, ",\n") + "\n]\n", nil
	})
}
