package main

// C17: the clip arithmetic of types/validator_set.go (T1)
func init() {
	register("ValSetArith", t1Module("types/validator_set.go",
		[]string{"safeMul", "safeAdd", "safeSub", "safeMulClip", "safeAddClip", "safeSubClip"}, nil))
}
