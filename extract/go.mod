module lvextract

go 1.21
