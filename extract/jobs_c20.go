package main

// C20 (T2): the jump table the interpreter actually selects, rendered as Lean data (Gen/EvmTable.lean).
//
//   - NewInterpreter (vm/evm/interpreter.go) must contain exactly one assignment `cfg.JumpTable = <ident>`;
//     <ident> must be a package variable of vm/evm/jump_table.go initialised by a call `new…InstructionSet()`.
//   - an instruction-set constructor is either `return [256]operation{ OP: {...}, ... }` or
//     `instructionSet := new…InstructionSet(); instructionSet[OP] = operation{...}; …; return instructionSet`.
//   - every field of an operation literal must have one of the shapes listed in c20Op; anything else is refused.
//   - opcode numbers come from the const blocks of vm/evm/opcodes.go (iota arithmetic evaluated here).
//   - a gas function whose body is the single statement `return <constant>, nil` is a constant price; every other
//     gas function is "dynamic" (the table records its name; the model attaches a floor to the names it knows).
//   - numeric constants used by the metering skeleton (stack limit, call depth, stipend, memory gas, the gas of the
//     simulated static call, EIP158 gas table, fee floor) are extracted by name.

import (
	"crypto/sha256"
	"fmt"
	"go/ast"
	"go/token"
	"sort"
	"strconv"
	"strings"
)

func init() { register("EvmTable", c20Facts) }

type c20Row struct {
	op                                      int
	name                                    string
	valid, halts, jumps, writes, rev, rets  bool
	pop, push                               int
	gasConst                                int64 // -1 = dynamic
	gasFn                                   string
	hasMem                                  bool
	memFn                                   string
	pcAdv                                   int
	exec                                    string
}

type c20ctx struct {
	e       *env
	opcodes map[string]int
	consts  map[string]int64 // unqualified (package evm), "cfg.X", "gt.X"
	jt      *ast.File
}

func c20Refuse(e *env, n ast.Node, format string, a ...interface{}) error {
	return fmt.Errorf("construct not in the supported subset: %s at %s", fmt.Sprintf(format, a...), e.pos(n))
}

// evaluates literal / iota / + / * / parenthesised constant expressions
func c20Eval(e *env, x ast.Expr, iota int, known map[string]int64) (int64, error) {
	switch v := x.(type) {
	case *ast.BasicLit:
		if v.Kind == token.INT {
			n, err := strconv.ParseInt(v.Value, 0, 64)
			if err != nil {
				return 0, c20Refuse(e, x, "integer literal %s", v.Value)
			}
			return n, nil
		}
		if v.Kind == token.FLOAT { // 1e10
			f, err := strconv.ParseFloat(v.Value, 64)
			if err != nil || f != float64(int64(f)) {
				return 0, c20Refuse(e, x, "float literal %s", v.Value)
			}
			return int64(f), nil
		}
	case *ast.Ident:
		if v.Name == "iota" {
			return int64(iota), nil
		}
		if known != nil {
			if n, ok := known[v.Name]; ok {
				return n, nil
			}
		}
	case *ast.ParenExpr:
		return c20Eval(e, v.X, iota, known)
	case *ast.CallExpr: // uint64(1e10), OpCode(…)
		if id, ok := v.Fun.(*ast.Ident); ok && len(v.Args) == 1 && (id.Name == "uint64" || id.Name == "int64" || id.Name == "OpCode" || id.Name == "int") {
			return c20Eval(e, v.Args[0], iota, known)
		}
	case *ast.BinaryExpr:
		a, err := c20Eval(e, v.X, iota, known)
		if err != nil {
			return 0, err
		}
		b, err := c20Eval(e, v.Y, iota, known)
		if err != nil {
			return 0, err
		}
		switch v.Op {
		case token.ADD:
			return a + b, nil
		case token.MUL:
			return a * b, nil
		case token.SUB:
			return a - b, nil
		}
	}
	return 0, c20Refuse(e, x, "constant expression")
}

// all integer constants of the const blocks of a file (iota-aware); prefix is prepended to the names
func c20Consts(e *env, rel, prefix string, into map[string]int64) error {
	f, err := e.parse(rel)
	if err != nil {
		return err
	}
	for _, d := range f.Decls {
		gd, ok := d.(*ast.GenDecl)
		if !ok || gd.Tok != token.CONST {
			continue
		}
		var last []ast.Expr
		for i, s := range gd.Specs {
			vs := s.(*ast.ValueSpec)
			vals := vs.Values
			if len(vals) == 0 {
				vals = last
			} else {
				last = vals
			}
			for k, n := range vs.Names {
				if k >= len(vals) {
					continue
				}
				local := map[string]int64{}
				for kk, vv := range into {
					if strings.HasPrefix(kk, prefix) {
						local[kk[len(prefix):]] = vv
					}
				}
				v, err := c20Eval(e, vals[k], i, local)
				if err != nil {
					continue // non-integer constants (strings, big ints) are not needed; a needed one is reported when looked up
				}
				into[prefix+n.Name] = v
			}
		}
	}
	return nil
}

// the fields of the composite literal `name = GasTable{…}` in config/gas_table.go, as "gt.Field"
func c20GasTable(e *env, name string, into map[string]int64) error {
	f, err := e.parse("config/gas_table.go")
	if err != nil {
		return err
	}
	found := false
	for _, d := range f.Decls {
		gd, ok := d.(*ast.GenDecl)
		if !ok || gd.Tok != token.VAR {
			continue
		}
		for _, s := range gd.Specs {
			vs := s.(*ast.ValueSpec)
			for k, n := range vs.Names {
				if n.Name != name || k >= len(vs.Values) {
					continue
				}
				cl, ok := vs.Values[k].(*ast.CompositeLit)
				if !ok {
					return c20Refuse(e, vs, "%s is not a composite literal", name)
				}
				for _, el := range cl.Elts {
					kv, ok := el.(*ast.KeyValueExpr)
					if !ok {
						return c20Refuse(e, el, "positional GasTable literal")
					}
					v, err := c20Eval(e, kv.Value, 0, nil)
					if err != nil {
						return err
					}
					into["gt."+kv.Key.(*ast.Ident).Name] = v
				}
				found = true
			}
		}
	}
	if !found {
		return fmt.Errorf("anchor variable not found: config/gas_table.go: %s", name)
	}
	return nil
}

func (c *c20ctx) constOf(x ast.Expr) (int64, bool) {
	switch v := x.(type) {
	case *ast.BasicLit:
		n, err := c20Eval(c.e, v, 0, nil)
		return n, err == nil
	case *ast.Ident:
		n, ok := c.consts[v.Name]
		return n, ok
	case *ast.SelectorExpr:
		if id, ok := v.X.(*ast.Ident); ok {
			n, ok := c.consts[id.Name+"."+v.Sel.Name]
			return n, ok
		}
	}
	return 0, false
}

func c20Int(e *env, x ast.Expr) (int, error) {
	n, err := c20Eval(e, x, 0, nil)
	return int(n), err
}

// a gas function is constant iff its body is `return <constant>, nil`
func (c *c20ctx) gasFuncConst(name string) (int64, error) {
	fd, err := c.e.funcDecl("vm/evm/gas_table.go", "", name)
	if err != nil {
		return -1, err
	}
	if len(fd.Body.List) == 1 {
		if rs, ok := fd.Body.List[0].(*ast.ReturnStmt); ok && len(rs.Results) == 2 {
			if id, ok := rs.Results[1].(*ast.Ident); ok && id.Name == "nil" {
				if n, ok := c.constOf(rs.Results[0]); ok {
					return n, nil
				}
			}
		}
	}
	return -1, nil
}

func (c *c20ctx) opLit(opName string, cl *ast.CompositeLit) (c20Row, error) {
	e := c.e
	r := c20Row{name: opName, gasConst: -1}
	n, ok := c.opcodes[opName]
	if !ok {
		return r, c20Refuse(e, cl, "opcode constant %s not found in opcodes.go", opName)
	}
	r.op = n
	seen := map[string]bool{}
	for _, el := range cl.Elts {
		kv, ok := el.(*ast.KeyValueExpr)
		if !ok {
			return r, c20Refuse(e, el, "positional operation literal")
		}
		key := kv.Key.(*ast.Ident).Name
		if seen[key] {
			return r, c20Refuse(e, kv, "duplicate field %s", key)
		}
		seen[key] = true
		switch key {
		case "execute":
			switch v := kv.Value.(type) {
			case *ast.Ident:
				r.exec = v.Name
			case *ast.CallExpr:
				fn, ok := v.Fun.(*ast.Ident)
				if !ok {
					return r, c20Refuse(e, kv, "execute")
				}
				r.exec = fn.Name
				switch fn.Name {
				case "makePush":
					if len(v.Args) != 2 {
						return r, c20Refuse(e, kv, "makePush arity")
					}
					a, err := c20Int(e, v.Args[0])
					if err != nil {
						return r, err
					}
					b, err := c20Int(e, v.Args[1])
					if err != nil {
						return r, err
					}
					if a != b {
						return r, c20Refuse(e, kv, "makePush(%d, %d) with different sizes", a, b)
					}
					r.pcAdv = a
				case "makeDup", "makeSwap", "makeLog":
				default:
					return r, c20Refuse(e, kv, "execute constructor %s", fn.Name)
				}
			default:
				return r, c20Refuse(e, kv, "execute")
			}
		case "gasCost":
			switch v := kv.Value.(type) {
			case *ast.Ident:
				r.gasFn = v.Name
				k, err := c.gasFuncConst(v.Name)
				if err != nil {
					return r, err
				}
				r.gasConst = k
			case *ast.CallExpr:
				fn, ok := v.Fun.(*ast.Ident)
				if !ok || len(v.Args) != 1 {
					return r, c20Refuse(e, kv, "gasCost")
				}
				switch fn.Name {
				case "constGasFunc":
					k, ok := c.constOf(v.Args[0])
					if !ok {
						return r, c20Refuse(e, kv, "constGasFunc argument")
					}
					r.gasFn, r.gasConst = "constGasFunc", k
				case "makeGasLog":
					k, err := c20Int(e, v.Args[0])
					if err != nil {
						return r, err
					}
					r.gasFn = fmt.Sprintf("makeGasLog%d", k)
				default:
					return r, c20Refuse(e, kv, "gasCost constructor %s", fn.Name)
				}
			default:
				return r, c20Refuse(e, kv, "gasCost")
			}
		case "validateStack":
			v, ok := kv.Value.(*ast.CallExpr)
			if !ok {
				return r, c20Refuse(e, kv, "validateStack")
			}
			fn, ok := v.Fun.(*ast.Ident)
			if !ok {
				return r, c20Refuse(e, kv, "validateStack")
			}
			var args []int
			for _, a := range v.Args {
				k, err := c20Int(e, a)
				if err != nil {
					return r, err
				}
				args = append(args, k)
			}
			switch {
			case fn.Name == "makeStackFunc" && len(args) == 2:
				r.pop, r.push = args[0], args[1]
			case fn.Name == "makeDupStackFunc" && len(args) == 1:
				r.pop, r.push = args[0], args[0]+1
			case fn.Name == "makeSwapStackFunc" && len(args) == 1:
				r.pop, r.push = args[0], args[0]
			default:
				return r, c20Refuse(e, kv, "validateStack constructor %s/%d", fn.Name, len(args))
			}
		case "memorySize":
			id, ok := kv.Value.(*ast.Ident)
			if !ok {
				return r, c20Refuse(e, kv, "memorySize")
			}
			r.hasMem, r.memFn = true, id.Name
		case "halts", "jumps", "writes", "valid", "reverts", "returns":
			id, ok := kv.Value.(*ast.Ident)
			if !ok || (id.Name != "true" && id.Name != "false") {
				return r, c20Refuse(e, kv, "flag %s", key)
			}
			b := id.Name == "true"
			switch key {
			case "halts":
				r.halts = b
			case "jumps":
				r.jumps = b
			case "writes":
				r.writes = b
			case "valid":
				r.valid = b
			case "reverts":
				r.rev = b
			case "returns":
				r.rets = b
			}
		default:
			return r, c20Refuse(e, kv, "unknown operation field %s", key)
		}
	}
	if !seen["execute"] || !seen["gasCost"] || !seen["validateStack"] {
		return r, c20Refuse(e, cl, "operation %s lacks execute/gasCost/validateStack", opName)
	}
	return r, nil
}

// makeStackFunc / makeDupStackFunc / makeSwapStackFunc must still mean (pop, push) with the limit test
func (c *c20ctx) checkStackTable() error {
	e := c.e
	fd, err := e.funcDecl("vm/evm/stack_table.go", "", "makeStackFunc")
	if err != nil {
		return err
	}
	src := c12Src(e, fd.Body)
	want := "{ return func(stack *Stack) error { if err := stack.require(pop); err != nil { return err } if stack.len()+push-pop > int(cfg.StackLimit) { return fmt.Errorf(\"stack limit reached %d (%d)\", stack.len(), cfg.StackLimit) } return nil } }"
	if src != want {
		return c20Refuse(e, fd, "makeStackFunc body changed: %s", src)
	}
	for name, w := range map[string]string{"makeDupStackFunc": "{ return makeStackFunc(n, n+1) }", "makeSwapStackFunc": "{ return makeStackFunc(n, n) }"} {
		fd, err := e.funcDecl("vm/evm/stack_table.go", "", name)
		if err != nil {
			return err
		}
		if s := c12Src(e, fd.Body); s != w {
			return c20Refuse(e, fd, "%s body changed: %s", name, s)
		}
	}
	fd, err = e.funcDecl("vm/evm/stack.go", "Stack", "require")
	if err != nil {
		return err
	}
	if s := c12Src(e, fd.Body); !strings.Contains(s, "if st.len() < n {") {
		return c20Refuse(e, fd, "Stack.require body changed: %s", s)
	}
	return nil
}

func (c *c20ctx) instructionSet(fn string, depth int) (map[int]c20Row, error) {
	e := c.e
	if depth > 8 {
		return nil, fmt.Errorf("construct not in the supported subset: instruction set constructors nest too deep at %s", fn)
	}
	fd, err := e.funcDecl("vm/evm/jump_table.go", "", fn)
	if err != nil {
		return nil, err
	}
	var tab map[int]c20Row
	varName := ""
	for i, st := range fd.Body.List {
		switch s := st.(type) {
		case *ast.ReturnStmt:
			if i != len(fd.Body.List)-1 || len(s.Results) != 1 {
				return nil, c20Refuse(e, s, "return in %s", fn)
			}
			switch v := s.Results[0].(type) {
			case *ast.Ident:
				if tab == nil || v.Name != varName {
					return nil, c20Refuse(e, s, "return of %s", v.Name)
				}
				return tab, nil
			case *ast.CompositeLit:
				if tab != nil {
					return nil, c20Refuse(e, s, "literal return after base table")
				}
				tab = map[int]c20Row{}
				for _, el := range v.Elts {
					kv, ok := el.(*ast.KeyValueExpr)
					if !ok {
						return nil, c20Refuse(e, el, "positional table element")
					}
					k, ok := kv.Key.(*ast.Ident)
					if !ok {
						return nil, c20Refuse(e, kv, "table key")
					}
					cl, ok := kv.Value.(*ast.CompositeLit)
					if !ok {
						return nil, c20Refuse(e, kv, "table value")
					}
					r, err := c.opLit(k.Name, cl)
					if err != nil {
						return nil, err
					}
					if _, dup := tab[r.op]; dup {
						return nil, c20Refuse(e, kv, "duplicate table key %s", k.Name)
					}
					tab[r.op] = r
				}
				return tab, nil
			default:
				return nil, c20Refuse(e, s, "return value in %s", fn)
			}
		case *ast.AssignStmt:
			if len(s.Lhs) != 1 || len(s.Rhs) != 1 {
				return nil, c20Refuse(e, s, "assignment in %s", fn)
			}
			if s.Tok == token.DEFINE {
				id, ok := s.Lhs[0].(*ast.Ident)
				call, ok2 := s.Rhs[0].(*ast.CallExpr)
				if !ok || !ok2 || tab != nil || len(call.Args) != 0 {
					return nil, c20Refuse(e, s, "definition in %s", fn)
				}
				base, ok := call.Fun.(*ast.Ident)
				if !ok {
					return nil, c20Refuse(e, s, "base table call in %s", fn)
				}
				varName = id.Name
				tab, err = c.instructionSet(base.Name, depth+1)
				if err != nil {
					return nil, err
				}
				continue
			}
			ix, ok := s.Lhs[0].(*ast.IndexExpr)
			if !ok || tab == nil {
				return nil, c20Refuse(e, s, "statement in %s", fn)
			}
			x, ok := ix.X.(*ast.Ident)
			k, ok2 := ix.Index.(*ast.Ident)
			cl, ok3 := s.Rhs[0].(*ast.CompositeLit)
			if !ok || !ok2 || !ok3 || x.Name != varName {
				return nil, c20Refuse(e, s, "table update in %s", fn)
			}
			r, err := c.opLit(k.Name, cl)
			if err != nil {
				return nil, err
			}
			tab[r.op] = r
		default:
			return nil, c20Refuse(e, st, "statement in %s", fn)
		}
	}
	return nil, c20Refuse(e, fd, "%s does not end in a return", fn)
}

func c20Kind(exec string) int {
	switch exec {
	case "opCall", "opCallCode", "opDelegateCall":
		return 1
	case "opStaticCall":
		return 2
	case "opCreate":
		return 3
	case "opCreate2":
		return 7
	case "opIssue":
		return 4
	case "opJump":
		return 5
	case "opJumpi":
		return 6
	}
	return 0
}

func c20Facts(e *env) (string, error) {
	c := &c20ctx{e: e, opcodes: map[string]int{}, consts: map[string]int64{}}
	// opcode numbers
	ops := map[string]int64{}
	if err := c20Consts(e, "vm/evm/opcodes.go", "", ops); err != nil {
		return "", err
	}
	for k, v := range ops {
		c.opcodes[k] = int(v)
	}
	if err := c20Consts(e, "vm/evm/gas.go", "", c.consts); err != nil {
		return "", err
	}
	if err := c20Consts(e, "config/params.go", "cfg.", c.consts); err != nil {
		return "", err
	}
	tf := map[string]int64{}
	if err := c20Consts(e, "types/tx_fee.go", "", tf); err != nil {
		return "", err
	}
	// which gas table: config.Gastable(evm.BlockNumber) with a non-nil number
	gfd, err := e.funcDecl("config/gas_table.go", "", "Gastable")
	if err != nil {
		return "", err
	}
	gsrc := c12Src(e, gfd.Body)
	if gsrc != "{ if num == nil { return GasTableHomestead } return GasTableEIP158 }" {
		return "", c20Refuse(e, gfd, "config.Gastable body changed: %s", gsrc)
	}
	if err := c20GasTable(e, "GasTableEIP158", c.consts); err != nil {
		return "", err
	}
	if err := c.checkStackTable(); err != nil {
		return "", err
	}
	// the selected jump table
	nfd, err := e.funcDecl("vm/evm/interpreter.go", "", "NewInterpreter")
	if err != nil {
		return "", err
	}
	var sel []string
	ast.Inspect(nfd.Body, func(n ast.Node) bool {
		as, ok := n.(*ast.AssignStmt)
		if !ok || len(as.Lhs) != 1 || len(as.Rhs) != 1 {
			return true
		}
		if s, ok := as.Lhs[0].(*ast.SelectorExpr); ok && s.Sel.Name == "JumpTable" {
			if id, ok := as.Rhs[0].(*ast.Ident); ok {
				sel = append(sel, id.Name)
			} else {
				sel = append(sel, "?")
			}
		}
		return true
	})
	if len(sel) != 1 || sel[0] == "?" {
		return "", c20Refuse(e, nfd, "NewInterpreter assigns cfg.JumpTable %d times (%v)", len(sel), sel)
	}
	jt, err := e.parse("vm/evm/jump_table.go")
	if err != nil {
		return "", err
	}
	ctor := ""
	for _, d := range jt.Decls {
		gd, ok := d.(*ast.GenDecl)
		if !ok || gd.Tok != token.VAR {
			continue
		}
		for _, s := range gd.Specs {
			vs := s.(*ast.ValueSpec)
			for k, n := range vs.Names {
				if n.Name == sel[0] && k < len(vs.Values) {
					if call, ok := vs.Values[k].(*ast.CallExpr); ok && len(call.Args) == 0 {
						if id, ok := call.Fun.(*ast.Ident); ok {
							ctor = id.Name
						}
					}
				}
			}
		}
	}
	if ctor == "" {
		return "", fmt.Errorf("anchor variable not found: vm/evm/jump_table.go: %s = new…InstructionSet()", sel[0])
	}
	tab, err := c.instructionSet(ctor, 0)
	if err != nil {
		return "", err
	}
	// the interpreter loop must still be the metering skeleton the model states (order of the per-step phases)
	rfd, err := e.funcDecl("vm/evm/interpreter.go", "Interpreter", "Run")
	if err != nil {
		return "", err
	}
	rsrc := c12Src(e, rfd.Body)
	phases := []string{
		"op = contract.GetOp(pc)", "operation := in.cfg.JumpTable[op]", "if !operation.valid {",
		"if err := operation.validateStack(stack); err != nil {", "if err := in.enforceRestrictions(op, operation, stack); err != nil {",
		"cost, err = operation.gasCost(in.gasTable, in.evm, contract, stack, mem, memorySize)",
		"if !contract.UseGas(cost) {", "return nil, ErrOutOfGas }", "if memorySize > 0 { mem.Resize(memorySize) }",
		"res, err := operation.execute(&pc, in.evm, contract, mem, stack)",
		"switch { case err != nil: return nil, err case operation.reverts: return res, types.ExecutionReverted case operation.halts: return res, nil case !operation.jumps: pc++ }",
	}
	at := 0
	var order []string
	for _, p := range phases {
		i := strings.Index(rsrc[at:], p)
		if i < 0 {
			return "", c20Refuse(e, rfd, "Interpreter.Run: phase %q not found in order", p)
		}
		at += i + len(p)
		order = append(order, p)
	}
	e.facts = append(e.facts, fact{Module: "EvmTable", Kind: "callorder", Name: "Interpreter.Run phases", Value: order, Pos: e.pos(rfd)})
	// UseGas: the only decrement of contract.Gas in the step
	ufd, err := e.funcDecl("vm/evm/contract.go", "Contract", "UseGas")
	if err != nil {
		return "", err
	}
	if s := c12Src(e, ufd.Body); s != "{ c.ByteCodeGas += gas if c.Gas < gas { return false } c.Gas -= gas return true }" {
		return "", c20Refuse(e, ufd, "Contract.UseGas body changed: %s", s)
	}

	// callGas: the 63/64 rule the model states (Model.Evm.callGasU64)
	cfd, err := e.funcDecl("vm/evm/gas.go", "", "callGas")
	if err != nil {
		return "", err
	}
	if s := c12Src(e, cfd.Body); s != "{ if gasTable.CreateBySuicide > 0 { availableGas = availableGas - base gas := availableGas - availableGas/64 if callCost.BitLen() > 64 || gas < callCost.Uint64() { return gas, nil } } if callCost.BitLen() > 64 { return 0, errGasUintOverflow } return callCost.Uint64(), nil }" {
		return "", c20Refuse(e, cfd, "callGas body changed: %s", s)
	}
	var keys []int
	for k := range tab {
		keys = append(keys, k)
	}
	sort.Ints(keys)
	var sb strings.Builder
	sb.WriteString("/-- one entry of the jump table: flags, stack signature `(pop, push)` of `makeStackFunc`, price\n(`gasConst = some c`: the gas function is the constant `c`; `none`: dynamic, `gasFn` names it), whether a\n`memorySize` function is attached, and the extra pc advance of `makePush` -/\nstructure Row where\n  op : Nat\n  name : String\n  valid : Bool\n  pop : Nat\n  push : Nat\n  gasConst : Option Nat\n  gasFn : String\n  hasMem : Bool\n  halts : Bool\n  jumps : Bool\n  writes : Bool\n  reverts : Bool\n  returns : Bool\n  pcAdv : Nat\n  exec : String\n  /-- derived from `exec`: 0 other, 1 opCall/opCallCode/opDelegateCall, 2 opStaticCall, 3 opCreate, 4 opIssue, 5 opJump, 6 opJumpi, 7 opCreate2 -/\n  kind : Nat\nderiving Repr, DecidableEq, Inhabited\n\n")
	fmt.Fprintf(&sb, "/-- the table `NewInterpreter` installs (`%s`) -/\ndef jumpTableName : String := %q\n\n", e.pos(nfd), sel[0])
	sb.WriteString("/-- the entries present in that table, by opcode -/\ndef rows : List Row := [\n")
	var jf []map[string]interface{}
	for i, k := range keys {
		r := tab[k]
		gc := "none"
		if r.gasConst >= 0 {
			gc = fmt.Sprintf("some %d", r.gasConst)
		}
		sep := ","
		if i == len(keys)-1 {
			sep = ""
		}
		fmt.Fprintf(&sb, "  { op := %d, name := %q, valid := %v, pop := %d, push := %d, gasConst := %s, gasFn := %q, hasMem := %v, halts := %v, jumps := %v, writes := %v, reverts := %v, returns := %v, pcAdv := %d, exec := %q, kind := %d }%s\n",
			r.op, r.name, r.valid, r.pop, r.push, gc, r.gasFn, r.hasMem, r.halts, r.jumps, r.writes, r.rev, r.rets, r.pcAdv, r.exec, c20Kind(r.exec), sep)
		jf = append(jf, map[string]interface{}{"op": r.op, "name": r.name, "valid": r.valid, "pop": r.pop, "push": r.push, "gasConst": r.gasConst, "gasFn": r.gasFn,
			"hasMem": r.hasMem, "halts": r.halts, "jumps": r.jumps, "writes": r.writes, "reverts": r.rev, "returns": r.rets, "pcAdv": r.pcAdv})
	}
	sb.WriteString("]\n\n")
	e.facts = append(e.facts, fact{Module: "EvmTable", Kind: "jumptable", Name: sel[0], Value: jf, Pos: e.pos(nfd)})

	need := func(lean, key string, m map[string]int64, doc string) error {
		v, ok := m[key]
		if !ok {
			return fmt.Errorf("anchor constant not found: %s", key)
		}
		fmt.Fprintf(&sb, "/-- %s -/\ndef %s : Nat := %d\n", doc, lean, v)
		e.facts = append(e.facts, fact{Module: "EvmTable", Kind: "const", Name: key, Value: v})
		return nil
	}
	ev := map[string]int64{}
	// staticCallSimulateGas is a package variable of evm.go
	evf, err := e.parse("vm/evm/evm.go")
	if err != nil {
		return "", err
	}
	for _, d := range evf.Decls {
		gd, ok := d.(*ast.GenDecl)
		if !ok || gd.Tok != token.VAR {
			continue
		}
		for _, s := range gd.Specs {
			vs := s.(*ast.ValueSpec)
			for k, n := range vs.Names {
				if n.Name == "staticCallSimulateGas" && k < len(vs.Values) {
					v, err := c20Eval(e, vs.Values[k], 0, nil)
					if err != nil {
						return "", err
					}
					ev["staticCallSimulateGas"] = v
				}
			}
		}
	}
	for _, n := range []struct {
		lean, key string
		m         map[string]int64
		doc       string
	}{
		{"stackLimit", "cfg.StackLimit", c.consts, "config.StackLimit"},
		{"callCreateDepth", "cfg.CallCreateDepth", c.consts, "config.CallCreateDepth"},
		{"callStipend", "cfg.CallStipend", c.consts, "config.CallStipend"},
		{"callValueTransferGas", "cfg.CallValueTransferGas", c.consts, "config.CallValueTransferGas"},
		{"memoryGas", "cfg.MemoryGas", c.consts, "config.MemoryGas"},
		{"quadCoeffDiv", "cfg.QuadCoeffDiv", c.consts, "config.QuadCoeffDiv"},
		{"createGas", "cfg.CreateGas", c.consts, "config.CreateGas"},
		{"create2Gas", "cfg.Create2Gas", c.consts, "config.Create2Gas"},
		{"sha3Gas", "cfg.Sha3Gas", c.consts, "config.Sha3Gas"},
		{"logGas", "cfg.LogGas", c.consts, "config.LogGas"},
		{"logTopicGas", "cfg.LogTopicGas", c.consts, "config.LogTopicGas"},
		{"sstoreClearGas", "cfg.SstoreClearGas", c.consts, "config.SstoreClearGas"},
		{"sstoreResetGas", "cfg.SstoreResetGas", c.consts, "config.SstoreResetGas"},
		{"sstoreSetGas", "cfg.SstoreSetGas", c.consts, "config.SstoreSetGas"},
		{"gtCalls", "gt.Calls", c.consts, "GasTableEIP158.Calls"},
		{"gtCreateBySuicide", "gt.CreateBySuicide", c.consts, "GasTableEIP158.CreateBySuicide: callGas applies the 63/64 rule iff this is > 0"},
		{"gtExtcodeCopy", "gt.ExtcodeCopy", c.consts, "GasTableEIP158.ExtcodeCopy"},
		{"gasFastestStep", "GasFastestStep", c.consts, "evm.GasFastestStep"},
		{"gasSlowStep", "GasSlowStep", c.consts, "evm.GasSlowStep"},
		{"minFeeGas", "MinGasLimit", tf, "types.MinGasLimit: the least fee `CalNewAmountGas` charges for a positive amount"},
		{"simulateGas", "staticCallSimulateGas", ev, "evm.staticCallSimulateGas: gas of the decimals() static call made after a frame that executed ISSUE"},
	} {
		if err := need(n.lean, n.key, n.m, n.doc); err != nil {
			return "", err
		}
	}
	// ---- precompiled contracts: prices, the two exported sets, and which set run/Call/UTXOCall consult
	for _, n := range []struct{ lean, key string }{
		{"ecrecoverGas", "cfg.EcrecoverGas"}, {"sha256BaseGas", "cfg.Sha256BaseGas"}, {"sha256PerWordGas", "cfg.Sha256PerWordGas"},
		{"ripemd160BaseGas", "cfg.Ripemd160BaseGas"}, {"ripemd160PerWordGas", "cfg.Ripemd160PerWordGas"},
		{"identityBaseGas", "cfg.IdentityBaseGas"}, {"identityPerWordGas", "cfg.IdentityPerWordGas"}, {"modExpQuadCoeffDiv", "cfg.ModExpQuadCoeffDiv"},
		{"bn256AddGas", "cfg.Bn256AddGas"}, {"bn256ScalarMulGas", "cfg.Bn256ScalarMulGas"}, {"bn256PairingBaseGas", "cfg.Bn256PairingBaseGas"},
		{"bn256PairingPerPointGas", "cfg.Bn256PairingPerPointGas"},
	} {
		if err := need(n.lean, n.key, c.consts, "config."+n.key[4:]); err != nil {
			return "", err
		}
	}
	cf, err := e.parse("vm/evm/contracts.go")
	if err != nil {
		return "", err
	}
	sets := map[string][][2]string{}
	for _, d := range cf.Decls {
		gd, ok := d.(*ast.GenDecl)
		if !ok || gd.Tok != token.VAR {
			continue
		}
		for _, sp := range gd.Specs {
			vs := sp.(*ast.ValueSpec)
			for k, n := range vs.Names {
				if !strings.HasPrefix(n.Name, "PrecompiledContracts") || k >= len(vs.Values) {
					continue
				}
				cl, ok := vs.Values[k].(*ast.CompositeLit)
				if !ok {
					return "", c20Refuse(e, vs, "%s is not a map literal", n.Name)
				}
				for _, el := range cl.Elts {
					kv, ok := el.(*ast.KeyValueExpr)
					if !ok {
						return "", c20Refuse(e, el, "precompile set element")
					}
					ks, vsrc := c12Src(e, kv.Key), c12Src(e, kv.Value)
					if !strings.HasPrefix(ks, "common.BytesToAddress([]byte{") || !strings.HasSuffix(ks, "})") || !strings.HasPrefix(vsrc, "&") || !strings.HasSuffix(vsrc, "{}") {
						return "", c20Refuse(e, kv, "precompile set entry %s: %s", ks, vsrc)
					}
					sets[n.Name] = append(sets[n.Name], [2]string{ks[len("common.BytesToAddress([]byte{") : len(ks)-2], vsrc[1 : len(vsrc)-2]})
				}
			}
		}
	}
	for _, name := range []string{"PrecompiledContractsHomestead", "PrecompiledContractsByzantium"} {
		if len(sets[name]) == 0 {
			return "", fmt.Errorf("anchor variable not found: vm/evm/contracts.go: %s", name)
		}
		var items []string
		for _, kv := range sets[name] {
			items = append(items, fmt.Sprintf("(%s, %q)", kv[0], kv[1]))
		}
		fmt.Fprintf(&sb, "/-- `%s`: (address, contract type) -/\ndef %s : List (Nat × String) := [%s]\n", name, strings.ToLower(name[:1])+name[1:], strings.Join(items, ", "))
	}
	// every function of evm.go that looks a precompile up must use the same set
	used := map[string]bool{}
	for _, d := range evf.Decls {
		fd, ok := d.(*ast.FuncDecl)
		if !ok || fd.Body == nil {
			continue
		}
		ast.Inspect(fd.Body, func(n ast.Node) bool {
			if id, ok := n.(*ast.Ident); ok && strings.HasPrefix(id.Name, "PrecompiledContracts") {
				used[id.Name] = true
			}
			return true
		})
	}
	if len(used) != 1 {
		return "", c20Refuse(e, evf, "evm.go consults %d precompile sets (%v)", len(used), used)
	}
	for k := range used {
		fmt.Fprintf(&sb, "/-- the only precompile set vm/evm/evm.go (run, Call, UTXOCall) consults -/\ndef precompileSetInUse : String := %q\n", k)
	}
	// RequiredGas / RunPrecompiledContract bodies are pinned by hash: the model transcribes them (Model.Evm.Pre)
	for _, t := range []string{"ecrecover", "sha256hash", "ripemd160hash", "dataCopy", "bigModExp", "bn256Add", "bn256ScalarMul", "bn256Pairing"} {
		fd, err := e.funcDecl("vm/evm/contracts.go", t, "RequiredGas")
		if err != nil {
			return "", err
		}
		fmt.Fprintf(&sb, "/-- sha256 of the whitespace-normalised body of `(*%s).RequiredGas` -/\ndef requiredGasBody_%s : String := \"%x\"\n", t, t, sha256.Sum256([]byte(c12Src(e, fd.Body))))
	}
	rfd2, err := e.funcDecl("vm/evm/contracts.go", "", "RunPrecompiledContract")
	if err != nil {
		return "", err
	}
	if src := c12Src(e, rfd2.Body); src != "{ gas := p.RequiredGas(input) if contract.UseGas(gas) { return p.Run(input) } return nil, ErrOutOfGas }" {
		return "", c20Refuse(e, rfd2, "RunPrecompiledContract body changed: %s", src)
	}
	return sb.String(), nil
}
