package main

// C08 (T2 + a mini T1 for big.Int comparisons): what the signing hash and the transaction hash of every
// transaction type cover, how the signers call recover, and the range checks of ValidateSignatureValues.
//   - struct field lists (name, serialised by libs/ser = exported and not tagged rlp:"-")
//   - the composite literal returned by every signFields(), UTXOTransaction.PrefixHash, TokenTransaction.Hash
//   - the suffix appended by sign() and by STDEIP155Signer.Hash / STDFrontierSigner.Hash
//   - the (signParamMul, homestead) arguments of data.recover in each signer's Sender
//   - the cache-hit guard of sender(), the Hash()/EncodeSER expressions, the RCT message assignment
//   - secp256k1N and a translation of crypto.ValidateSignatureValues into a Lean Bool function over Int

import (
	"bytes"
	"fmt"
	"go/ast"
	"go/printer"
	"go/token"
	"reflect"
	"strconv"
	"strings"
)

func init() { register("SigFacts", c08Facts) }

func c08Src(e *env, n ast.Node) string {
	var b bytes.Buffer
	printer.Fprint(&b, e.fset, n)
	return strings.Join(strings.Fields(b.String()), " ")
}

func c08Struct(e *env, rel, name string) (*ast.StructType, error) {
	f, err := e.parse(rel)
	if err != nil {
		return nil, err
	}
	for _, d := range f.Decls {
		gd, ok := d.(*ast.GenDecl)
		if !ok || gd.Tok != token.TYPE {
			continue
		}
		for _, s := range gd.Specs {
			ts := s.(*ast.TypeSpec)
			if ts.Name.Name == name {
				if st, ok := ts.Type.(*ast.StructType); ok {
					return st, nil
				}
			}
		}
	}
	return nil, fmt.Errorf("anchor struct not found: %s: %s", rel, name)
}

// (field name, serialised by libs/ser: exported and not tagged rlp:"-")
func c08Fields(e *env, rel, name string) (string, error) {
	st, err := c08Struct(e, rel, name)
	if err != nil {
		return "", err
	}
	var items []string
	var vals [][2]interface{}
	for _, fl := range st.Fields.List {
		var names []string
		for _, n := range fl.Names {
			names = append(names, n.Name)
		}
		if len(names) == 0 { // embedded
			t := fl.Type
			if s, ok := t.(*ast.StarExpr); ok {
				t = s.X
			}
			if sel, ok := t.(*ast.SelectorExpr); ok {
				names = []string{sel.Sel.Name}
			} else if id, ok := t.(*ast.Ident); ok {
				names = []string{id.Name}
			} else {
				return "", fmt.Errorf("construct not in the supported subset: embedded field of %s at %s", name, e.pos(fl))
			}
		}
		skip := false
		if fl.Tag != nil {
			if s, err := strconv.Unquote(fl.Tag.Value); err == nil {
				if reflect.StructTag(s).Get("rlp") == "-" {
					skip = true
				}
			}
		}
		for _, n := range names {
			ser := ast.IsExported(n) && !skip
			items = append(items, fmt.Sprintf("(%q, %v)", n, ser))
			vals = append(vals, [2]interface{}{n, ser})
		}
	}
	e.facts = append(e.facts, fact{Module: "SigFacts", Kind: "fieldlist", Name: name, Value: vals, Pos: e.pos(st)})
	return "[" + strings.Join(items, ", ") + "]", nil
}

// the last selector path below the receiver: tx.data.X -> "X", data.X -> "X", tx.Sigs.R -> "Sigs.R", tx.X -> "X"
func c08SelName(x ast.Expr, recv string, strip []string) (string, bool) {
	var parts []string
	for {
		switch v := x.(type) {
		case *ast.SelectorExpr:
			parts = append([]string{v.Sel.Name}, parts...)
			x = v.X
			continue
		case *ast.Ident:
			if v.Name != recv {
				return "", false
			}
			for len(parts) > 1 && len(strip) > 0 && parts[0] == strip[0] {
				parts = parts[1:]
				strip = strip[1:]
			}
			return strings.Join(parts, "."), len(parts) > 0
		default:
			return "", false
		}
	}
}

func c08Recv(fd *ast.FuncDecl) string {
	if fd.Recv != nil && len(fd.Recv.List) == 1 && len(fd.Recv.List[0].Names) == 1 {
		return fd.Recv.List[0].Names[0].Name
	}
	return ""
}

// the single `[]interface{}{...}` literal of a function, as selector names under the receiver
func c08IfaceLit(e *env, rel, recvT, fn string, strip []string) ([]string, error) {
	fd, err := e.funcDecl(rel, recvT, fn)
	if err != nil {
		return nil, err
	}
	recv := c08Recv(fd)
	var lits []*ast.CompositeLit
	ast.Inspect(fd.Body, func(n ast.Node) bool {
		if cl, ok := n.(*ast.CompositeLit); ok {
			if at, ok := cl.Type.(*ast.ArrayType); ok && at.Len == nil {
				if it, ok := at.Elt.(*ast.InterfaceType); ok && len(it.Methods.List) == 0 {
					lits = append(lits, cl)
				}
			}
		}
		return true
	})
	if len(lits) != 1 {
		return nil, fmt.Errorf("construct not in the supported subset: (%s).%s has %d []interface{} literals", recvT, fn, len(lits))
	}
	var out []string
	for _, el := range lits[0].Elts {
		n, ok := c08SelName(el, recv, strip)
		if !ok {
			return nil, fmt.Errorf("construct not in the supported subset: element %q of (%s).%s at %s", c08Src(e, el), recvT, fn, e.pos(el))
		}
		out = append(out, n)
	}
	e.facts = append(e.facts, fact{Module: "SigFacts", Kind: "fieldlist", Name: recvT + "." + fn, Value: out, Pos: e.pos(fd)})
	return out, nil
}

func c08Strs(xs []string) string {
	q := make([]string, len(xs))
	for i, x := range xs {
		q[i] = strconv.Quote(x)
	}
	return "[" + strings.Join(q, ", ") + "]"
}

// all calls of `callee` (by printed function expression) inside fd, each as its printed argument list
func c08Calls(e *env, fd *ast.FuncDecl, callee string) [][]string {
	var out [][]string
	ast.Inspect(fd.Body, func(n ast.Node) bool {
		if c, ok := n.(*ast.CallExpr); ok && c08Src(e, c.Fun) == callee {
			var args []string
			for _, a := range c.Args {
				args = append(args, c08Src(e, a))
			}
			out = append(out, args)
		}
		return true
	})
	return out
}

func c08One(e *env, rel, recvT, fn, callee string) ([]string, error) {
	fd, err := e.funcDecl(rel, recvT, fn)
	if err != nil {
		return nil, err
	}
	cs := c08Calls(e, fd, callee)
	if len(cs) != 1 {
		return nil, fmt.Errorf("construct not in the supported subset: (%s).%s has %d calls of %s", recvT, fn, len(cs), callee)
	}
	e.facts = append(e.facts, fact{Module: "SigFacts", Kind: "callsite", Name: recvT + "." + fn + ":" + callee, Value: cs[0], Pos: e.pos(fd)})
	return cs[0], nil
}

// ---- mini T1: Boolean expressions over big.Int comparisons ------------------------------------

func c08Big(e *env, x ast.Expr) (string, error) {
	switch c08Src(e, x) {
	case "common.Big1":
		return "1", nil
	case "common.Big0":
		return "0", nil
	case "secp256k1N":
		return "secp256k1N", nil
	case "secp256k1halfN":
		return "secp256k1halfN", nil
	case "r", "s":
		return c08Src(e, x), nil
	}
	return "", fmt.Errorf("go2lean refuses: big.Int operand %q at %s", c08Src(e, x), e.pos(x))
}

func c08Cond(e *env, x ast.Expr) (string, error) {
	switch v := x.(type) {
	case *ast.ParenExpr:
		return c08Cond(e, v.X)
	case *ast.Ident:
		if v.Name == "homestead" || v.Name == "true" || v.Name == "false" {
			return v.Name, nil
		}
	case *ast.UnaryExpr:
		if v.Op == token.NOT {
			s, err := c08Cond(e, v.X)
			return "(!" + s + ")", err
		}
	case *ast.BinaryExpr:
		switch v.Op {
		case token.LAND, token.LOR:
			a, err := c08Cond(e, v.X)
			if err != nil {
				return "", err
			}
			b, err := c08Cond(e, v.Y)
			if err != nil {
				return "", err
			}
			op := "&&"
			if v.Op == token.LOR {
				op = "||"
			}
			return "(" + a + " " + op + " " + b + ")", nil
		case token.LSS, token.LEQ, token.GTR, token.GEQ, token.EQL, token.NEQ:
			ops := map[token.Token]string{token.LSS: "<", token.LEQ: "≤", token.GTR: ">", token.GEQ: "≥", token.EQL: "=", token.NEQ: "≠"}
			// X.Cmp(Y) op 0
			if call, ok := v.X.(*ast.CallExpr); ok && c08Src(e, v.Y) == "0" {
				if sel, ok := call.Fun.(*ast.SelectorExpr); ok && sel.Sel.Name == "Cmp" && len(call.Args) == 1 {
					a, err := c08Big(e, sel.X)
					if err != nil {
						return "", err
					}
					b, err := c08Big(e, call.Args[0])
					if err != nil {
						return "", err
					}
					return "decide (" + a + " " + ops[v.Op] + " " + b + ")", nil
				}
			}
			// v op <small literal>
			if id, ok := v.X.(*ast.Ident); ok && id.Name == "v" {
				if lit, ok := v.Y.(*ast.BasicLit); ok && lit.Kind == token.INT {
					return "decide (v " + ops[v.Op] + " " + lit.Value + ")", nil
				}
			}
		}
	}
	return "", fmt.Errorf("go2lean refuses: condition %q at %s", c08Src(e, x), e.pos(x))
}

func c08Validate(e *env) (string, error) {
	fd, err := e.funcDecl("libs/crypto/crypto.go", "", "ValidateSignatureValues")
	if err != nil {
		return "", err
	}
	if got := c08Src(e, fd.Type); got != "func(v byte, r, s *big.Int, homestead bool) bool" {
		return "", fmt.Errorf("go2lean refuses: ValidateSignatureValues signature %q", got)
	}
	var sb strings.Builder
	sb.WriteString("/-- translated from `" + e.pos(fd) + "` (big.Int comparisons as Int comparisons; `v` is the byte argument) -/\n")
	sb.WriteString("def validateSignatureValues (v r s : Int) (homestead : Bool) : Bool :=\n")
	n := len(fd.Body.List)
	for i, st := range fd.Body.List {
		switch s := st.(type) {
		case *ast.IfStmt:
			if s.Init != nil || s.Else != nil || len(s.Body.List) != 1 {
				return "", fmt.Errorf("go2lean refuses: if shape at %s", e.pos(s))
			}
			ret, ok := s.Body.List[0].(*ast.ReturnStmt)
			if !ok || len(ret.Results) != 1 {
				return "", fmt.Errorf("go2lean refuses: if body at %s", e.pos(s))
			}
			c, err := c08Cond(e, s.Cond)
			if err != nil {
				return "", err
			}
			r, err := c08Cond(e, ret.Results[0])
			if err != nil {
				return "", err
			}
			fmt.Fprintf(&sb, "  if %s then %s else\n", c, r)
		case *ast.ReturnStmt:
			if i != n-1 || len(s.Results) != 1 {
				return "", fmt.Errorf("go2lean refuses: return shape at %s", e.pos(s))
			}
			r, err := c08Cond(e, s.Results[0])
			if err != nil {
				return "", err
			}
			fmt.Fprintf(&sb, "  %s\n\n", r)
		default:
			return "", fmt.Errorf("go2lean refuses: statement at %s", e.pos(st))
		}
	}
	return sb.String(), nil
}

func c08CurveOrder(e *env) (string, error) {
	f, err := e.parse("libs/crypto/crypto.go")
	if err != nil {
		return "", err
	}
	var nHex, half string
	for _, d := range f.Decls {
		gd, ok := d.(*ast.GenDecl)
		if !ok || gd.Tok != token.VAR {
			continue
		}
		for _, s := range gd.Specs {
			vs := s.(*ast.ValueSpec)
			for i, n := range vs.Names {
				if i >= len(vs.Values) && len(vs.Values) != 1 {
					continue
				}
				if n.Name == "secp256k1N" && len(vs.Values) == 1 {
					if c, ok := vs.Values[0].(*ast.CallExpr); ok && len(c.Args) == 2 && c08Src(e, c.Fun) == "new(big.Int).SetString" && c08Src(e, c.Args[1]) == "16" {
						if lit, ok := c.Args[0].(*ast.BasicLit); ok {
							nHex, _ = strconv.Unquote(lit.Value)
						}
					}
				}
				if n.Name == "secp256k1halfN" && len(vs.Values) == 1 {
					half = c08Src(e, vs.Values[0])
				}
			}
		}
	}
	if nHex == "" {
		return "", fmt.Errorf("anchor not found: secp256k1N = new(big.Int).SetString(<hex>, 16)")
	}
	if half != "new(big.Int).Div(secp256k1N, big.NewInt(2))" {
		return "", fmt.Errorf("go2lean refuses: secp256k1halfN = %q", half)
	}
	e.facts = append(e.facts, fact{Module: "SigFacts", Kind: "const", Name: "secp256k1N", Value: nHex})
	return fmt.Sprintf("/-- libs/crypto/crypto.go -/\ndef secp256k1N : Int := 0x%s\n\n/-- `new(big.Int).Div(secp256k1N, big.NewInt(2))` -/\ndef secp256k1halfN : Int := secp256k1N / 2\n\n", nHex), nil
}

// the printed condition of the (only) if-statement whose body returns `sigCache.from, nil` in sender()
func c08CacheGuard(e *env) (string, error) {
	fd, err := e.funcDecl("types/sign.go", "", "sender")
	if err != nil {
		return "", err
	}
	var conds []string
	ast.Inspect(fd.Body, func(n ast.Node) bool {
		if s, ok := n.(*ast.IfStmt); ok && len(s.Body.List) == 1 {
			if r, ok := s.Body.List[0].(*ast.ReturnStmt); ok && len(r.Results) == 2 && c08Src(e, r.Results[0]) == "sigCache.from" {
				conds = append(conds, c08Src(e, s.Cond))
			}
		}
		return true
	})
	// also any return of sigCache.from outside such an if
	rets := 0
	ast.Inspect(fd.Body, func(n ast.Node) bool {
		if r, ok := n.(*ast.ReturnStmt); ok && len(r.Results) == 2 && c08Src(e, r.Results[0]) == "sigCache.from" {
			rets++
		}
		return true
	})
	if len(conds) != 1 || rets != 1 {
		return "", fmt.Errorf("construct not in the supported subset: sender() has %d guarded / %d total returns of the cached address", len(conds), rets)
	}
	// stores into the cache
	stores := c08Calls(e, fd, "data.from().Store")
	if len(stores) != 1 {
		return "", fmt.Errorf("construct not in the supported subset: sender() has %d cache stores", len(stores))
	}
	e.facts = append(e.facts, fact{Module: "SigFacts", Kind: "callsite", Name: "sender:cache", Value: []string{conds[0], stores[0][0]}, Pos: e.pos(fd)})
	return fmt.Sprintf("/-- types/sign.go sender(): the guard of the cache hit and the value stored after a successful recovery -/\ndef senderCacheGuard : String := %q\ndef senderCacheStore : String := %q\n\n", conds[0], stores[0][0]), nil
}

func c08Facts(e *env) (string, error) {
	var sb strings.Builder
	co, err := c08CurveOrder(e)
	if err != nil {
		return "", err
	}
	sb.WriteString(co)
	v, err := c08Validate(e)
	if err != nil {
		return "", err
	}
	sb.WriteString(v)

	for _, s := range []struct{ lean, rel, name string }{
		{"txdataFields", "types/transaction.go", "txdata"},
		{"transactionFields", "types/transaction.go", "Transaction"},
		{"tokenDataFields", "types/tx_type_txt.go", "tokenData"},
		{"tokenTransactionFields", "types/tx_type_txt.go", "TokenTransaction"},
		{"signdataFields", "types/sign.go", "signdata"},
		{"cutMainInfoFields", "types/tx_type_cut.go", "ContractUpgradeMainInfo"},
		{"cutTxFields", "types/tx_type_cut.go", "ContractUpgradeTx"},
		{"mstMainInfoFields", "types/tx_type_mst.go", "MultiSignMainInfo"},
		{"mstTxFields", "types/tx_type_mst.go", "MultiSignAccountTx"},
		{"utxoTxFields", "types/tx_utxo.go", "UTXOTransaction"},
	} {
		l, err := c08Fields(e, s.rel, s.name)
		if err != nil {
			return "", err
		}
		fmt.Fprintf(&sb, "/-- fields of `%s` (%s): (name, serialised by libs/ser = exported and not tagged rlp:\"-\") -/\ndef %s : List (String × Bool) :=\n  %s\n\n", s.name, s.rel, s.lean, l)
	}

	for _, s := range []struct {
		lean, rel, recv, fn string
		strip            []string
	}{
		{"txSignFields", "types/transaction.go", "txdata", "signFields", nil},
		{"tokSignFields", "types/tx_type_txt.go", "TokenTransaction", "signFields", []string{"data"}},
		{"cutSignFields", "types/tx_type_cut.go", "ContractUpgradeTx", "signFields", nil},
		{"utxoSignFields", "types/tx_utxo.go", "UTXOTransaction", "signFields", nil},
		{"utxoPrefixHashFields", "types/tx_utxo.go", "UTXOTransaction", "PrefixHash", nil},
	} {
		l, err := c08IfaceLit(e, s.rel, s.recv, s.fn, s.strip)
		if err != nil {
			return "", err
		}
		fmt.Fprintf(&sb, "/-- the `[]interface{}` literal of `(%s).%s` (%s) -/\ndef %s : List String := %s\n\n", s.recv, s.fn, s.rel, s.lean, c08Strs(l))
	}

	// sign(): fields := append(data, signer.SignParam(), uint(0), uint(0)); h := rlpHash(fields)
	a, err := c08One(e, "types/sign.go", "", "sign", "append")
	if err != nil {
		return "", err
	}
	fmt.Fprintf(&sb, "/-- `append(...)` in sign() (types/sign.go): what is hashed and signed -/\ndef signAppend : List String := %s\n\n", c08Strs(a))
	a, err = c08One(e, "types/sign.go", "", "sign", "rlpHash")
	if err != nil {
		return "", err
	}
	fmt.Fprintf(&sb, "def signHashArg : List String := %s\n\n", c08Strs(a))
	// STDEIP155Signer.Hash
	fd, err := e.funcDecl("types/sign.go", "STDEIP155Signer", "Hash")
	if err != nil {
		return "", err
	}
	var stmts []string
	for _, st := range fd.Body.List {
		stmts = append(stmts, c08Src(e, st))
	}
	fmt.Fprintf(&sb, "/-- body of `(STDEIP155Signer).Hash` (types/sign.go), statement by statement -/\ndef eip155HashBody : List String := %s\n\n", c08Strs(stmts))
	fd, err = e.funcDecl("types/sign.go", "STDFrontierSigner", "Hash")
	if err != nil {
		return "", err
	}
	stmts = nil
	for _, st := range fd.Body.List {
		stmts = append(stmts, c08Src(e, st))
	}
	fmt.Fprintf(&sb, "/-- body of `(STDFrontierSigner).Hash` (also used by STDHomesteadSigner through embedding) -/\ndef frontierHashBody : List String := %s\n\n", c08Strs(stmts))
	// a Hash method on STDHomesteadSigner would shadow the embedded one
	if _, err := e.funcDecl("types/sign.go", "STDHomesteadSigner", "Hash"); err == nil {
		return "", fmt.Errorf("construct not in the supported subset: STDHomesteadSigner now has its own Hash method")
	}

	// recover call sites
	for _, s := range []struct{ lean, recv string }{{"eip155Recover", "STDEIP155Signer"}, {"homesteadRecover", "STDHomesteadSigner"}, {"frontierRecover", "STDFrontierSigner"}} {
		a, err := c08One(e, "types/sign.go", s.recv, "Sender", "data.recover")
		if err != nil {
			return "", err
		}
		if len(a) != 3 || (a[2] != "true" && a[2] != "false") {
			return "", fmt.Errorf("construct not in the supported subset: (%s).Sender recover args %v", s.recv, a)
		}
		fmt.Fprintf(&sb, "/-- arguments of `data.recover` in `(%s).Sender` -/\ndef %sArgs : List String := %s\ndef %sHomestead : Bool := %s\n\n", s.recv, s.lean, c08Strs(a), s.lean, a[2])
	}
	// the whole body of STDEIP155Signer.Sender (fallback + sign-param guard), statement by statement
	fd, err = e.funcDecl("types/sign.go", "STDEIP155Signer", "Sender")
	if err != nil {
		return "", err
	}
	stmts = nil
	for _, st := range fd.Body.List {
		stmts = append(stmts, c08Src(e, st))
	}
	fmt.Fprintf(&sb, "/-- body of `(STDEIP155Signer).Sender` -/\ndef eip155SenderBody : List String := %s\n\n", c08Strs(stmts))

	// the V arithmetic the hand model mirrors (big.Int code, outside go2lean's integer subset): statement lists
	for _, b := range []struct{ lean, rel, recv, fn string }{
		{"isProtectedVBody", "types/sign.go", "", "isProtectedV"},
		{"deriveSignParamBody", "types/sign.go", "", "DeriveSignParam"},
		{"signdataRecoverBody", "types/sign.go", "signdata", "recover"},
		{"txdataRecoverBody", "types/transaction.go", "txdata", "recover"},
		{"recoverPlainBody", "types/sign.go", "", "recoverPlain"},
	} {
		bfd, err := e.funcDecl(b.rel, b.recv, b.fn)
		if err != nil {
			return "", err
		}
		var st []string
		for _, x := range bfd.Body.List {
			st = append(st, c08Src(e, x))
		}
		fmt.Fprintf(&sb, "/-- body of `%s` (%s), statement by statement -/\ndef %s : List String := %s\n\n", b.fn, b.rel, b.lean, c08Strs(st))
	}

	// recoverPlain: the call of ValidateSignatureValues
	a, err = c08One(e, "types/sign.go", "", "recoverPlain", "crypto.ValidateSignatureValues")
	if err != nil {
		return "", err
	}
	fmt.Fprintf(&sb, "/-- arguments of `crypto.ValidateSignatureValues` in recoverPlain -/\ndef recoverPlainValidateArgs : List String := %s\n\n", c08Strs(a))

	g, err := c08CacheGuard(e)
	if err != nil {
		return "", err
	}
	sb.WriteString(g)

	// hashes: Transaction.Hash -> rlpHash(tx); EncodeSER -> ser.Encode(w, &tx.data)
	a, err = c08One(e, "types/transaction.go", "Transaction", "Hash", "rlpHash")
	if err != nil {
		return "", err
	}
	b, err := c08One(e, "types/transaction.go", "Transaction", "EncodeSER", "ser.Encode")
	if err != nil {
		return "", err
	}
	fmt.Fprintf(&sb, "/-- `(Transaction).Hash` hashes this; `(Transaction).EncodeSER` encodes that -/\ndef txHashArg : List String := %s\ndef txEncodeArgs : List String := %s\n\n", c08Strs(a), c08Strs(b))
	a, err = c08One(e, "types/tx_type_txt.go", "TokenTransaction", "Hash", "append")
	if err != nil {
		return "", err
	}
	b, err = c08One(e, "types/tx_type_txt.go", "TokenTransaction", "Hash", "rlpHash")
	if err != nil {
		return "", err
	}
	fmt.Fprintf(&sb, "/-- `(TokenTransaction).Hash`: hashFields := append(...); rlpHash(...) -/\ndef tokHashAppend : List String := %s\ndef tokHashArg : List String := %s\n\n", c08Strs(a), c08Strs(b))
	for _, s := range []struct{ lean, rel, recv string }{{"cutHashArgs", "types/tx_type_cut.go", "ContractUpgradeTx"}, {"utxoHashArgs", "types/tx_utxo.go", "UTXOTransaction"}, {"mstHashArgs", "types/tx_type_mst.go", "MultiSignAccountTx"}} {
		a, err := c08One(e, s.rel, s.recv, "Hash", "transactionHash")
		if err != nil {
			return "", err
		}
		fmt.Fprintf(&sb, "/-- arguments of transactionHash in `(%s).Hash` -/\ndef %s : List String := %s\n\n", s.recv, s.lean, c08Strs(a))
	}
	a, err = c08One(e, "types/tx.go", "", "transactionHash", "rlpHash")
	if err != nil {
		return "", err
	}
	fmt.Fprintf(&sb, "def transactionHashRlpArg : List String := %s\n\n", c08Strs(a))
	// no custom encoders on the struct-encoded types
	for _, s := range []struct{ rel, recv string }{{"types/tx_type_cut.go", "ContractUpgradeTx"}, {"types/tx_utxo.go", "UTXOTransaction"}, {"types/sign.go", "signdata"}, {"types/tx_type_mst.go", "MultiSignAccountTx"}} {
		if _, err := e.funcDecl(s.rel, s.recv, "EncodeSER"); err == nil {
			return "", fmt.Errorf("construct not in the supported subset: %s now has a custom EncodeSER", s.recv)
		}
	}

	// the RingCT message: tx.RCTSig.Message = tx.PrefixHash() in expandTransactionRctSig
	fd, err = e.funcDecl("types/tx_utxo.go", "UTXOTransaction", "expandTransactionRctSig")
	if err != nil {
		return "", err
	}
	var msgs []string
	ast.Inspect(fd.Body, func(n ast.Node) bool {
		if as, ok := n.(*ast.AssignStmt); ok && len(as.Lhs) == 1 && len(as.Rhs) == 1 && c08Src(e, as.Lhs[0]) == "tx.RCTSig.Message" {
			msgs = append(msgs, c08Src(e, as.Rhs[0]))
		}
		return true
	})
	fmt.Fprintf(&sb, "/-- right-hand sides assigned to `tx.RCTSig.Message` in expandTransactionRctSig -/\ndef rctMessageAssigned : List String := %s\n\n", c08Strs(msgs))
	// MultiSignAccountTx: what the validators sign
	a, err = c08One(e, "types/tx_type_mst.go", "MultiSignAccountTx", "VerifySign", "GenMultiSignBytes")
	if err != nil {
		return "", err
	}
	fmt.Fprintf(&sb, "/-- argument of GenMultiSignBytes in `(MultiSignAccountTx).VerifySign` (no chain parameter) -/\ndef mstSignBytesArg : List String := %s\n", c08Strs(a))
	return sb.String(), nil
}
