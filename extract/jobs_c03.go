package main

// C03: the threshold arithmetic of the commit rule, translated (T1) from the expressions that the
// code evaluates today:
//   types/validator_set.go  VerifyCommit      `if talliedVotingPower > valSet.TotalVotingPower()*2/3 { return nil }`
//   types/vote_set.go       addVerifiedVote   `quorum := voteSet.valSet.TotalVotingPower()*2/3 + 1`
//                                             `if origSum < quorum && quorum <= votesByBlock.sum {`
//                           HasTwoThirdsAny   `return voteSet.sum > voteSet.valSet.TotalVotingPower()*2/3`
//                           HasAll            `return voteSet.sum == voteSet.valSet.TotalVotingPower()`
// plus two structural facts of VerifyCommit (T2): the per-slot signature is checked against the validator
// returned by GetByIndex(idx) of the loop index, and the tally is guarded by blockID.Equals(precommit.BlockID).
// The expressions are located structurally (go/ast); sub-expressions that read state are replaced by
// named parameters; everything else goes through the go2lean expression translator (int64 wrap, tdiv).

import (
	"fmt"
	"go/ast"
	"go/token"
	"go/types"
	"strings"
)

func init() { register("CommitArith", c03Job); register("CommitSites", c03Sites) }

// substExpr replaces every sub-expression whose source text is a key of m by the identifier m[key].
func substExpr(e ast.Expr, m map[string]string) ast.Expr {
	if n, ok := m[types.ExprString(e)]; ok {
		return &ast.Ident{Name: n, NamePos: e.Pos()}
	}
	switch x := e.(type) {
	case *ast.ParenExpr:
		return &ast.ParenExpr{Lparen: x.Lparen, X: substExpr(x.X, m), Rparen: x.Rparen}
	case *ast.BinaryExpr:
		return &ast.BinaryExpr{X: substExpr(x.X, m), OpPos: x.OpPos, Op: x.Op, Y: substExpr(x.Y, m)}
	case *ast.UnaryExpr:
		return &ast.UnaryExpr{OpPos: x.OpPos, Op: x.Op, X: substExpr(x.X, m)}
	}
	return e
}

func c03Expr(e *env, name string, params []string, kinds map[string]string, resKind string, x ast.Expr, m map[string]string) (out string, err error) {
	defer func() {
		if r := recover(); r != nil {
			if rf, ok := r.(refusal); ok {
				err = fmt.Errorf("go2lean refuses (%s): %s", name, rf.msg)
				return
			}
			panic(r)
		}
	}()
	c := &t1ctx{fset: e.fset, known: map[string]bool{}, vartype: map[string]string{}, fn: name}
	for k, v := range kinds {
		c.vartype[k] = v
	}
	s, k := c.expr(substExpr(x, m))
	if k != resKind && !(k == "lit" && resKind == "i64") {
		return "", fmt.Errorf("%s: expression %s has kind %s, expected %s", name, types.ExprString(x), k, resKind)
	}
	var ps []string
	for _, p := range params {
		ps = append(ps, fmt.Sprintf("(%s : %s)", p, leanType(kinds[p])))
	}
	return fmt.Sprintf("/-- translated from `%s`: `%s` -/\ndef %s %s : %s :=\n  %s\n\n", e.pos(x), types.ExprString(x), name, strings.Join(ps, " "), leanType(resKind), s), nil
}

func isReturnNil(b *ast.BlockStmt) bool {
	if len(b.List) != 1 {
		return false
	}
	r, ok := b.List[0].(*ast.ReturnStmt)
	if !ok || len(r.Results) != 1 {
		return false
	}
	id, ok := r.Results[0].(*ast.Ident)
	return ok && id.Name == "nil"
}

func lastReturnExpr(fd *ast.FuncDecl) ast.Expr {
	if n := len(fd.Body.List); n > 0 {
		if r, ok := fd.Body.List[n-1].(*ast.ReturnStmt); ok && len(r.Results) == 1 {
			return r.Results[0]
		}
	}
	return nil
}

func c03Job(e *env) (string, error) {
	var sb strings.Builder
	i64 := func(names ...string) map[string]string {
		m := map[string]string{}
		for _, n := range names {
			m[n] = "i64"
		}
		return m
	}
	// ---- VerifyCommit
	vc, err := e.funcDecl("types/validator_set.go", "ValidatorSet", "VerifyCommit")
	if err != nil {
		return "", err
	}
	var accept ast.Expr
	for _, st := range vc.Body.List {
		if is, ok := st.(*ast.IfStmt); ok && is.Init == nil && is.Else == nil && isReturnNil(is.Body) {
			accept = is.Cond
		}
	}
	if accept == nil {
		return "", fmt.Errorf("anchor not found: VerifyCommit has no `if <cond> { return nil }`")
	}
	s, err := c03Expr(e, "verifyCommitAccepts", []string{"tallied", "total"}, i64("tallied", "total"), "bool", accept,
		map[string]string{"talliedVotingPower": "tallied", "valSet.TotalVotingPower()": "total"})
	if err != nil {
		return "", err
	}
	sb.WriteString(s)
	// structural facts of the tally loop
	var loop *ast.RangeStmt
	for _, st := range vc.Body.List {
		if r, ok := st.(*ast.RangeStmt); ok && types.ExprString(r.X) == "commit.Precommits" {
			loop = r
		}
	}
	if loop == nil {
		return "", fmt.Errorf("anchor not found: VerifyCommit has no loop over commit.Precommits")
	}
	idxName, _ := loop.Key.(*ast.Ident)
	slotName, _ := loop.Value.(*ast.Ident)
	if idxName == nil || slotName == nil {
		return "", fmt.Errorf("VerifyCommit: loop variables not identifiers")
	}
	sigByIndex, tallyGuarded, talliesPower := false, false, false
	valVar := ""
	sawGuard := false
	for _, st := range loop.Body.List {
		switch x := st.(type) {
		case *ast.AssignStmt:
			if len(x.Rhs) == 1 && len(x.Lhs) == 2 && types.ExprString(x.Rhs[0]) == "valSet.GetByIndex("+idxName.Name+")" {
				if id, ok := x.Lhs[1].(*ast.Ident); ok {
					valVar = id.Name
				}
			} else if len(x.Lhs) == 2 {
				if id, ok := x.Lhs[1].(*ast.Ident); ok && id.Name == valVar {
					valVar = "" // rebound from something else
				}
			}
			if x.Tok == token.ADD_ASSIGN && len(x.Lhs) == 1 && types.ExprString(x.Lhs[0]) == "talliedVotingPower" &&
				valVar != "" && types.ExprString(x.Rhs[0]) == valVar+".VotingPower" {
				talliesPower = true
				tallyGuarded = sawGuard
			}
		case *ast.IfStmt:
			c := types.ExprString(x.Cond)
			if valVar != "" && strings.HasPrefix(c, "!"+valVar+".PubKey.VerifyBytes(") && strings.HasSuffix(c, ", "+slotName.Name+".Signature)") {
				if len(x.Body.List) == 1 {
					if _, ok := x.Body.List[0].(*ast.ReturnStmt); ok {
						sigByIndex = true
					}
				}
			}
			if c == "!blockID.Equals("+slotName.Name+".BlockID)" && len(x.Body.List) == 1 {
				if b, ok := x.Body.List[0].(*ast.BranchStmt); ok && b.Tok == token.CONTINUE {
					sawGuard = true
				}
			}
		}
	}
	fmt.Fprintf(&sb, "/-- `VerifyCommit` checks each slot's signature against `valSet.GetByIndex(<loop index>)` and returns an error otherwise (`%s`) -/\ndef sigCheckedAgainstIndex : Bool := %v\n\n", e.pos(loop), sigByIndex)
	fmt.Fprintf(&sb, "/-- the tally `talliedVotingPower += val.VotingPower` exists and is preceded by `if !blockID.Equals(precommit.BlockID) { continue }` -/\ndef tallyGuardedByBlockID : Bool := %v\n\n", talliesPower && tallyGuarded)
	e.facts = append(e.facts, fact{"CommitArith", "loopfact", "VerifyCommit.sigCheckedAgainstIndex", sigByIndex, e.pos(loop)},
		fact{"CommitArith", "loopfact", "VerifyCommit.tallyGuardedByBlockID", talliesPower && tallyGuarded, e.pos(loop)})

	// ---- addVerifiedVote
	av, err := e.funcDecl("types/vote_set.go", "VoteSet", "addVerifiedVote")
	if err != nil {
		return "", err
	}
	var quorum, crossed ast.Expr
	for _, st := range av.Body.List {
		switch x := st.(type) {
		case *ast.AssignStmt:
			if len(x.Lhs) == 1 && len(x.Rhs) == 1 && types.ExprString(x.Lhs[0]) == "quorum" {
				quorum = x.Rhs[0]
			}
		case *ast.IfStmt:
			if strings.Contains(types.ExprString(x.Cond), "quorum") {
				crossed = x.Cond
			}
		}
	}
	if quorum == nil || crossed == nil {
		return "", fmt.Errorf("anchor not found: addVerifiedVote quorum assignment / crossing condition")
	}
	s, err = c03Expr(e, "quorum", []string{"total"}, i64("total"), "i64", quorum, map[string]string{"voteSet.valSet.TotalVotingPower()": "total"})
	if err != nil {
		return "", err
	}
	sb.WriteString(s)
	s, err = c03Expr(e, "crossedQuorum", []string{"origSum", "quorum'", "newSum"}, i64("origSum", "quorum'", "newSum"), "bool", crossed,
		map[string]string{"votesByBlock.sum": "newSum", "quorum": "quorum'"})
	if err != nil {
		return "", err
	}
	sb.WriteString(s)
	// ---- HasTwoThirdsAny / HasAll
	for _, fn := range []string{"HasTwoThirdsAny", "HasAll"} {
		fd, err := e.funcDecl("types/vote_set.go", "VoteSet", fn)
		if err != nil {
			return "", err
		}
		r := lastReturnExpr(fd)
		if r == nil {
			return "", fmt.Errorf("anchor not found: %s does not end in a single-value return", fn)
		}
		s, err = c03Expr(e, strings.ToLower(fn[:1])+fn[1:], []string{"sum", "total"}, i64("sum", "total"), "bool", r,
			map[string]string{"voteSet.sum": "sum", "voteSet.valSet.TotalVotingPower()": "total"})
		if err != nil {
			return "", err
		}
		sb.WriteString(s)
	}
	// ---- MultiSignAccountTx.VerifySign: the accept test inside the signature loop
	ms, err := e.funcDecl("types/tx_type_mst.go", "MultiSignAccountTx", "VerifySign")
	if err != nil {
		return "", err
	}
	var mstCond ast.Expr
	ast.Inspect(ms.Body, func(n ast.Node) bool {
		if is, ok := n.(*ast.IfStmt); ok && strings.Contains(types.ExprString(is.Cond), "TotalVotingPower()") && strings.Contains(types.ExprString(is.Cond), "totalVotingPower") {
			mstCond = is.Cond
		}
		return true
	})
	if mstCond == nil {
		return "", fmt.Errorf("anchor not found: VerifySign has no accept test on totalVotingPower")
	}
	s, err = c03Expr(e, "mstAccepts", []string{"tallied", "total"}, i64("tallied", "total"), "bool", mstCond,
		map[string]string{"totalVotingPower": "tallied", "validators.TotalVotingPower()": "total"})
	if err != nil {
		return "", err
	}
	sb.WriteString(s)
	return sb.String(), nil
}

// ---- call sites (T2): WHICH validator set, chain id, block id, height and commit each caller hands to the commit rule,
// and what happens when the rule says no.

func c03StrList(xs []string) string {
	q := make([]string, len(xs))
	for i, x := range xs {
		q[i] = fmt.Sprintf("%q", x)
	}
	return "[" + strings.Join(q, ", ") + "]"
}

// callTexts returns receiver + argument source texts of the (unique) call of method `sel` inside fd
func c03CallTexts(fd *ast.FuncDecl, sel string) ([]string, *ast.CallExpr, int) {
	var out []string
	var call *ast.CallExpr
	n := 0
	ast.Inspect(fd.Body, func(x ast.Node) bool {
		if c, ok := x.(*ast.CallExpr); ok {
			if se, ok := c.Fun.(*ast.SelectorExpr); ok && se.Sel.Name == sel {
				n++
				call = c
				out = []string{types.ExprString(se.X)}
				for _, a := range c.Args {
					out = append(out, types.ExprString(a))
				}
			}
		}
		return true
	})
	return out, call, n
}

func c03StmtText(s ast.Stmt) string {
	switch x := s.(type) {
	case *ast.ExprStmt:
		return types.ExprString(x.X)
	case *ast.AssignStmt:
		var l, r []string
		for _, e := range x.Lhs {
			l = append(l, types.ExprString(e))
		}
		for _, e := range x.Rhs {
			if cl, ok := e.(*ast.CompositeLit); ok {
				var el []string
				for _, y := range cl.Elts {
					el = append(el, types.ExprString(y))
				}
				r = append(r, types.ExprString(cl.Type)+"{"+strings.Join(el, ", ")+"}")
				continue
			}
			r = append(r, types.ExprString(e))
		}
		return strings.Join(l, ", ") + " " + x.Tok.String() + " " + strings.Join(r, ", ")
	case *ast.ReturnStmt:
		var r []string
		for _, e := range x.Results {
			r = append(r, types.ExprString(e))
		}
		return strings.TrimSpace("return " + strings.Join(r, ", "))
	case *ast.BranchStmt:
		if x.Label != nil {
			return x.Tok.String() + " " + x.Label.Name
		}
		return x.Tok.String()
	case *ast.IfStmt:
		return "if " + types.ExprString(x.Cond)
	case *ast.RangeStmt:
		return "range " + types.ExprString(x.X)
	}
	return fmt.Sprintf("%T", s)
}

// ifAfterAssign: the `if err != nil {...}` that directly follows the statement containing call; returns the texts of its body
func c03ErrBranchAfter(fd *ast.FuncDecl, call *ast.CallExpr) []string {
	var out []string
	ast.Inspect(fd.Body, func(x ast.Node) bool {
		bs, ok := x.(*ast.BlockStmt)
		if !ok {
			return true
		}
		for i, st := range bs.List {
			as, ok := st.(*ast.AssignStmt)
			if !ok || len(as.Rhs) != 1 || as.Rhs[0] != ast.Expr(call) || i+1 >= len(bs.List) {
				continue
			}
			if is, ok := bs.List[i+1].(*ast.IfStmt); ok && types.ExprString(is.Cond) == "err != nil" {
				for _, b := range is.Body.List {
					out = append(out, c03StmtText(b))
				}
			}
		}
		return true
	})
	return out
}

func c03Sites(e *env) (string, error) {
	var sb strings.Builder
	emit := func(name, doc string, xs []string) {
		fmt.Fprintf(&sb, "/-- %s -/\ndef %s : List String := %s\n\n", doc, name, c03StrList(xs))
		e.facts = append(e.facts, fact{"CommitSites", "callsite", name, xs, ""})
	}
	// validateBlock
	vb, err := e.funcDecl("consensus/validation.go", "", "validateBlock")
	if err != nil {
		return "", err
	}
	t, call, n := c03CallTexts(vb, "VerifyCommit")
	if n != 1 {
		return "", fmt.Errorf("validateBlock: expected exactly one VerifyCommit call, found %d", n)
	}
	emit("validateBlockCall", "`validateBlock` (consensus/validation.go): receiver and arguments of its VerifyCommit call", t)
	emit("validateBlockOnError", "… and the body of the `if err != nil` that follows it", c03ErrBranchAfter(vb, call))
	// fast sync
	pr, err := e.funcDecl("blockchain/reactor.go", "BlockchainReactor", "poolRoutine")
	if err != nil {
		return "", err
	}
	t, call, n = c03CallTexts(pr, "VerifyCommit")
	if n != 1 {
		return "", fmt.Errorf("poolRoutine: expected exactly one VerifyCommit call, found %d", n)
	}
	emit("fastSyncCall", "`poolRoutine` (blockchain/reactor.go): receiver and arguments of its VerifyCommit call", t)
	eb := c03ErrBranchAfter(pr, call)
	var calls []string
	for _, x := range eb {
		if strings.Contains(x, "RedoRequest") || strings.Contains(x, "break") || strings.Contains(x, "ApplyBlock") || strings.Contains(x, "CommitBlock") || strings.Contains(x, "SaveBlock") || strings.Contains(x, "PopRequest") {
			calls = append(calls, x)
		}
	}
	emit("fastSyncOnError", "… and what the `if err != nil` that follows it does with the two blocks (requests redone, loop left; nothing applied)", calls)
	var firstID []string
	ast.Inspect(pr.Body, func(x ast.Node) bool {
		if as, ok := x.(*ast.AssignStmt); ok && len(as.Lhs) == 1 && len(as.Rhs) == 1 {
			switch types.ExprString(as.Lhs[0]) {
			case "firstID", "firstPartsHeader", "firstParts":
				firstID = append(firstID, c03StmtText(as))
			}
		}
		return true
	})
	emit("fastSyncBlockID", "how fast sync computes the block id it asks the commit to be for", firstID)
	// restart
	rc, err := e.funcDecl("consensus/state.go", "ConsensusState", "reconstructLastCommit")
	if err != nil {
		return "", err
	}
	t, _, n = c03CallTexts(rc, "NewVoteSet")
	if n != 1 {
		return "", fmt.Errorf("reconstructLastCommit: expected exactly one NewVoteSet call, found %d", n)
	}
	emit("reconstructVoteSet", "`reconstructLastCommit` (consensus/state.go): package and arguments of its NewVoteSet call", t)
	var body []string
	for _, st := range rc.Body.List {
		body = append(body, c03StmtText(st))
		if r, ok := st.(*ast.RangeStmt); ok {
			for _, b := range r.Body.List {
				body = append(body, "  "+c03StmtText(b))
				if is, ok := b.(*ast.IfStmt); ok {
					for _, bb := range is.Body.List {
						body = append(body, "    "+c03StmtText(bb))
					}
				}
			}
		}
		if is, ok := st.(*ast.IfStmt); ok {
			for _, b := range is.Body.List {
				body = append(body, "  "+c03StmtText(b))
			}
		}
	}
	emit("reconstructBody", "the statements of `reconstructLastCommit`, in order (two levels)", body)
	// multi-sign transaction
	cb, err := e.funcDecl("types/tx_type_mst.go", "MultiSignAccountTx", "CheckBasic")
	if err != nil {
		return "", err
	}
	var cbBody []string
	for _, st := range cb.Body.List {
		cbBody = append(cbBody, c03StmtText(st))
	}
	emit("mstCheckBasic", "`MultiSignAccountTx.CheckBasic`: which validator set `VerifySign` is given", cbBody)
	// VerifyCommitAny has no caller
	return sb.String(), nil
}
