package main

// C03: the threshold arithmetic of the commit rule, translated (T1) from the expressions that the
// code evaluates today:
//   types/validator_set.go  VerifyCommit      `if talliedVotingPower > valSet.TotalVotingPower()*2/3 { return nil }`
//   types/vote_set.go       addVerifiedVote   `quorum := voteSet.valSet.TotalVotingPower()*2/3 + 1`
//                                             `if origSum < quorum && quorum <= votesByBlock.sum {`
//                           HasTwoThirdsAny   `return voteSet.sum > voteSet.valSet.TotalVotingPower()*2/3`
//                           HasAll            `return voteSet.sum == voteSet.valSet.TotalVotingPower()`
// plus two structural facts of VerifyCommit (T2): the per-slot signature is checked against the validator
// returned by GetByIndex(idx) of the loop index, and the tally is guarded by blockID.Equals(precommit.BlockID).
// The expressions are located structurally (go/ast); sub-expressions that read state are replaced by
// named parameters; everything else goes through the go2lean expression translator (int64 wrap, tdiv).

import (
	"fmt"
	"go/ast"
	"go/token"
	"go/types"
	"strings"
)

func init() { register("CommitArith", c03Job) }

// substExpr replaces every sub-expression whose source text is a key of m by the identifier m[key].
func substExpr(e ast.Expr, m map[string]string) ast.Expr {
	if n, ok := m[types.ExprString(e)]; ok {
		return &ast.Ident{Name: n, NamePos: e.Pos()}
	}
	switch x := e.(type) {
	case *ast.ParenExpr:
		return &ast.ParenExpr{Lparen: x.Lparen, X: substExpr(x.X, m), Rparen: x.Rparen}
	case *ast.BinaryExpr:
		return &ast.BinaryExpr{X: substExpr(x.X, m), OpPos: x.OpPos, Op: x.Op, Y: substExpr(x.Y, m)}
	case *ast.UnaryExpr:
		return &ast.UnaryExpr{OpPos: x.OpPos, Op: x.Op, X: substExpr(x.X, m)}
	}
	return e
}

func c03Expr(e *env, name string, params []string, kinds map[string]string, resKind string, x ast.Expr, m map[string]string) (out string, err error) {
	defer func() {
		if r := recover(); r != nil {
			if rf, ok := r.(refusal); ok {
				err = fmt.Errorf("go2lean refuses (%s): %s", name, rf.msg)
				return
			}
			panic(r)
		}
	}()
	c := &t1ctx{fset: e.fset, known: map[string]bool{}, vartype: map[string]string{}, fn: name}
	for k, v := range kinds {
		c.vartype[k] = v
	}
	s, k := c.expr(substExpr(x, m))
	if k != resKind && !(k == "lit" && resKind == "i64") {
		return "", fmt.Errorf("%s: expression %s has kind %s, expected %s", name, types.ExprString(x), k, resKind)
	}
	var ps []string
	for _, p := range params {
		ps = append(ps, fmt.Sprintf("(%s : %s)", p, leanType(kinds[p])))
	}
	return fmt.Sprintf("/-- translated from `%s`: `%s` -/\ndef %s %s : %s :=\n  %s\n\n", e.pos(x), types.ExprString(x), name, strings.Join(ps, " "), leanType(resKind), s), nil
}

func isReturnNil(b *ast.BlockStmt) bool {
	if len(b.List) != 1 {
		return false
	}
	r, ok := b.List[0].(*ast.ReturnStmt)
	if !ok || len(r.Results) != 1 {
		return false
	}
	id, ok := r.Results[0].(*ast.Ident)
	return ok && id.Name == "nil"
}

func lastReturnExpr(fd *ast.FuncDecl) ast.Expr {
	if n := len(fd.Body.List); n > 0 {
		if r, ok := fd.Body.List[n-1].(*ast.ReturnStmt); ok && len(r.Results) == 1 {
			return r.Results[0]
		}
	}
	return nil
}

func c03Job(e *env) (string, error) {
	var sb strings.Builder
	i64 := func(names ...string) map[string]string {
		m := map[string]string{}
		for _, n := range names {
			m[n] = "i64"
		}
		return m
	}
	// ---- VerifyCommit
	vc, err := e.funcDecl("types/validator_set.go", "ValidatorSet", "VerifyCommit")
	if err != nil {
		return "", err
	}
	var accept ast.Expr
	for _, st := range vc.Body.List {
		if is, ok := st.(*ast.IfStmt); ok && is.Init == nil && is.Else == nil && isReturnNil(is.Body) {
			accept = is.Cond
		}
	}
	if accept == nil {
		return "", fmt.Errorf("anchor not found: VerifyCommit has no `if <cond> { return nil }`")
	}
	s, err := c03Expr(e, "verifyCommitAccepts", []string{"tallied", "total"}, i64("tallied", "total"), "bool", accept,
		map[string]string{"talliedVotingPower": "tallied", "valSet.TotalVotingPower()": "total"})
	if err != nil {
		return "", err
	}
	sb.WriteString(s)
	// structural facts of the tally loop
	var loop *ast.RangeStmt
	for _, st := range vc.Body.List {
		if r, ok := st.(*ast.RangeStmt); ok && types.ExprString(r.X) == "commit.Precommits" {
			loop = r
		}
	}
	if loop == nil {
		return "", fmt.Errorf("anchor not found: VerifyCommit has no loop over commit.Precommits")
	}
	idxName, _ := loop.Key.(*ast.Ident)
	slotName, _ := loop.Value.(*ast.Ident)
	if idxName == nil || slotName == nil {
		return "", fmt.Errorf("VerifyCommit: loop variables not identifiers")
	}
	sigByIndex, tallyGuarded, talliesPower := false, false, false
	valVar := ""
	sawGuard := false
	for _, st := range loop.Body.List {
		switch x := st.(type) {
		case *ast.AssignStmt:
			if len(x.Rhs) == 1 && len(x.Lhs) == 2 && types.ExprString(x.Rhs[0]) == "valSet.GetByIndex("+idxName.Name+")" {
				if id, ok := x.Lhs[1].(*ast.Ident); ok {
					valVar = id.Name
				}
			} else if len(x.Lhs) == 2 {
				if id, ok := x.Lhs[1].(*ast.Ident); ok && id.Name == valVar {
					valVar = "" // rebound from something else
				}
			}
			if x.Tok == token.ADD_ASSIGN && len(x.Lhs) == 1 && types.ExprString(x.Lhs[0]) == "talliedVotingPower" &&
				valVar != "" && types.ExprString(x.Rhs[0]) == valVar+".VotingPower" {
				talliesPower = true
				tallyGuarded = sawGuard
			}
		case *ast.IfStmt:
			c := types.ExprString(x.Cond)
			if valVar != "" && strings.HasPrefix(c, "!"+valVar+".PubKey.VerifyBytes(") && strings.HasSuffix(c, ", "+slotName.Name+".Signature)") {
				if len(x.Body.List) == 1 {
					if _, ok := x.Body.List[0].(*ast.ReturnStmt); ok {
						sigByIndex = true
					}
				}
			}
			if c == "!blockID.Equals("+slotName.Name+".BlockID)" && len(x.Body.List) == 1 {
				if b, ok := x.Body.List[0].(*ast.BranchStmt); ok && b.Tok == token.CONTINUE {
					sawGuard = true
				}
			}
		}
	}
	fmt.Fprintf(&sb, "/-- `VerifyCommit` checks each slot's signature against `valSet.GetByIndex(<loop index>)` and returns an error otherwise (`%s`) -/\ndef sigCheckedAgainstIndex : Bool := %v\n\n", e.pos(loop), sigByIndex)
	fmt.Fprintf(&sb, "/-- the tally `talliedVotingPower += val.VotingPower` exists and is preceded by `if !blockID.Equals(precommit.BlockID) { continue }` -/\ndef tallyGuardedByBlockID : Bool := %v\n\n", talliesPower && tallyGuarded)
	e.facts = append(e.facts, fact{"CommitArith", "loopfact", "VerifyCommit.sigCheckedAgainstIndex", sigByIndex, e.pos(loop)},
		fact{"CommitArith", "loopfact", "VerifyCommit.tallyGuardedByBlockID", talliesPower && tallyGuarded, e.pos(loop)})

	// ---- addVerifiedVote
	av, err := e.funcDecl("types/vote_set.go", "VoteSet", "addVerifiedVote")
	if err != nil {
		return "", err
	}
	var quorum, crossed ast.Expr
	for _, st := range av.Body.List {
		switch x := st.(type) {
		case *ast.AssignStmt:
			if len(x.Lhs) == 1 && len(x.Rhs) == 1 && types.ExprString(x.Lhs[0]) == "quorum" {
				quorum = x.Rhs[0]
			}
		case *ast.IfStmt:
			if strings.Contains(types.ExprString(x.Cond), "quorum") {
				crossed = x.Cond
			}
		}
	}
	if quorum == nil || crossed == nil {
		return "", fmt.Errorf("anchor not found: addVerifiedVote quorum assignment / crossing condition")
	}
	s, err = c03Expr(e, "quorum", []string{"total"}, i64("total"), "i64", quorum, map[string]string{"voteSet.valSet.TotalVotingPower()": "total"})
	if err != nil {
		return "", err
	}
	sb.WriteString(s)
	s, err = c03Expr(e, "crossedQuorum", []string{"origSum", "quorum'", "newSum"}, i64("origSum", "quorum'", "newSum"), "bool", crossed,
		map[string]string{"votesByBlock.sum": "newSum", "quorum": "quorum'"})
	if err != nil {
		return "", err
	}
	sb.WriteString(s)
	// ---- HasTwoThirdsAny / HasAll
	for _, fn := range []string{"HasTwoThirdsAny", "HasAll"} {
		fd, err := e.funcDecl("types/vote_set.go", "VoteSet", fn)
		if err != nil {
			return "", err
		}
		r := lastReturnExpr(fd)
		if r == nil {
			return "", fmt.Errorf("anchor not found: %s does not end in a single-value return", fn)
		}
		s, err = c03Expr(e, strings.ToLower(fn[:1])+fn[1:], []string{"sum", "total"}, i64("sum", "total"), "bool", r,
			map[string]string{"voteSet.sum": "sum", "voteSet.valSet.TotalVotingPower()": "total"})
		if err != nil {
			return "", err
		}
		sb.WriteString(s)
	}
	return sb.String(), nil
}
