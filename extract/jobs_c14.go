package main

// C14: constants and structural facts (T2) of the consensus WAL framing and the autofile group.
//   consensus/wal.go          maxMsgSizeBytes; Encode writes crc at msg[0:4] and length at msg[4:8];
//                             Decode rejects length > maxMsgSizeBytes and compares the checksum before ser.DecodeBytes
//   libs/autofile/group.go    size of the head bufio.Writer; whether RotateFile flushes it before os.Rename

import (
	"fmt"
	"go/ast"
	"go/token"
	"strconv"
	"strings"
)

func c14ConstInt(e ast.Expr, consts map[string]int64) (int64, error) {
	switch x := e.(type) {
	case *ast.BasicLit:
		if x.Kind != token.INT {
			return 0, fmt.Errorf("construct not in the supported subset: literal %s", x.Value)
		}
		return strconv.ParseInt(x.Value, 0, 64)
	case *ast.ParenExpr:
		return c14ConstInt(x.X, consts)
	case *ast.Ident:
		if v, ok := consts[x.Name]; ok {
			return v, nil
		}
		return 0, fmt.Errorf("construct not in the supported subset: identifier %s in constant expression", x.Name)
	case *ast.BinaryExpr:
		a, err := c14ConstInt(x.X, consts)
		if err != nil {
			return 0, err
		}
		b, err := c14ConstInt(x.Y, consts)
		if err != nil {
			return 0, err
		}
		switch x.Op {
		case token.MUL:
			return a * b, nil
		case token.ADD:
			return a + b, nil
		case token.SUB:
			return a - b, nil
		case token.SHL:
			return a << uint(b), nil
		}
	}
	return 0, fmt.Errorf("construct not in the supported subset: constant expression")
}

func c14FileConst(f *ast.File, name string) (int64, error) { return c14FileConstWith(f, name, nil) }

func c14FileConstWith(f *ast.File, name string, consts map[string]int64) (int64, error) {
	for _, d := range f.Decls {
		gd, ok := d.(*ast.GenDecl)
		if !ok || gd.Tok != token.CONST {
			continue
		}
		for _, s := range gd.Specs {
			vs := s.(*ast.ValueSpec)
			for i, n := range vs.Names {
				if n.Name == name && i < len(vs.Values) {
					return c14ConstInt(vs.Values[i], consts)
				}
			}
		}
	}
	return 0, fmt.Errorf("anchor constant not found: %s", name)
}

// selector chain as a dotted string, e.g. g.headBuf.Flush
func c14Sel(e ast.Expr) string {
	switch x := e.(type) {
	case *ast.Ident:
		return x.Name
	case *ast.SelectorExpr:
		return c14Sel(x.X) + "." + x.Sel.Name
	}
	return "?"
}

// position (statement order) of the first call whose selector chain has the given suffix; -1 if absent
func c14FirstCall(fd *ast.FuncDecl, suffix string) token.Pos {
	var pos token.Pos = -1
	ast.Inspect(fd.Body, func(n ast.Node) bool {
		if c, ok := n.(*ast.CallExpr); ok && pos < 0 {
			if strings.HasSuffix(c14Sel(c.Fun), suffix) {
				pos = c.Pos()
			}
		}
		return true
	})
	return pos
}

func c14SliceBounds(e ast.Expr) string {
	s, ok := e.(*ast.SliceExpr)
	if !ok {
		return "?"
	}
	lo, hi := "", ""
	if l, ok := s.Low.(*ast.BasicLit); ok {
		lo = l.Value
	}
	if h, ok := s.High.(*ast.BasicLit); ok {
		hi = h.Value
	}
	return c14Sel(s.X) + "[" + lo + ":" + hi + "]"
}

func leanBool(b bool) string {
	if b {
		return "true"
	}
	return "false"
}

func init() {
	register("WalFacts", func(e *env) (string, error) {
		wal, err := e.parse("consensus/wal.go")
		if err != nil {
			return "", err
		}
		// the reactor's bound on a peer message (same package): the WAL bound is defined from it
		reactor, err := e.parse("consensus/reactor.go")
		if err != nil {
			return "", err
		}
		reactorMax, err := c14FileConst(reactor, "maxMsgSize")
		if err != nil {
			return "", err
		}
		maxMsg, err := c14FileConstWith(wal, "maxMsgSizeBytes", map[string]int64{"maxMsgSize": reactorMax})
		if err != nil {
			return "", err
		}
		// --- OpenGroup: bufio.NewWriterSize(head, N)
		og, err := e.funcDecl("libs/autofile/group.go", "", "OpenGroup")
		if err != nil {
			return "", err
		}
		var bufSize int64 = -1
		var bufErr error
		ast.Inspect(og.Body, func(n ast.Node) bool {
			if c, ok := n.(*ast.CallExpr); ok && c14Sel(c.Fun) == "bufio.NewWriterSize" && len(c.Args) == 2 {
				bufSize, bufErr = c14ConstInt(c.Args[1], nil)
			}
			return true
		})
		if bufErr != nil {
			return "", bufErr
		}
		if bufSize < 0 {
			return "", fmt.Errorf("anchor call not found: bufio.NewWriterSize in OpenGroup")
		}
		// --- RotateFile: is the bufio writer flushed before the rename?
		rf, err := e.funcDecl("libs/autofile/group.go", "Group", "RotateFile")
		if err != nil {
			return "", err
		}
		ren := c14FirstCall(rf, "os.Rename")
		if ren < 0 {
			return "", fmt.Errorf("anchor call not found: os.Rename in RotateFile")
		}
		fl := c14FirstCall(rf, "headBuf.Flush")
		rotateFlushes := fl >= 0 && fl < ren
		// --- Encode: field order
		enc, err := e.funcDecl("consensus/wal.go", "WALEncoder", "Encode")
		if err != nil {
			return "", err
		}
		var puts []string
		ast.Inspect(enc.Body, func(n ast.Node) bool {
			if c, ok := n.(*ast.CallExpr); ok && c14Sel(c.Fun) == "binary.BigEndian.PutUint32" && len(c.Args) == 2 {
				puts = append(puts, c14SliceBounds(c.Args[0])+"="+c14Sel(c.Args[1]))
			}
			return true
		})
		// Encode refuses length > maxMsgSizeBytes (returns an error) before anything is handed to the writer
		var encLenCheck token.Pos = -1
		ast.Inspect(enc.Body, func(n ast.Node) bool {
			ifs, ok := n.(*ast.IfStmt)
			if !ok {
				return true
			}
			be, ok := ifs.Cond.(*ast.BinaryExpr)
			if !ok {
				return true
			}
			ret := false
			for _, st := range ifs.Body.List {
				if r, ok := st.(*ast.ReturnStmt); ok && len(r.Results) == 1 && c14Sel(r.Results[0]) != "nil" {
					ret = true
				}
			}
			if be.Op == token.GTR && c14Sel(be.X) == "length" && c14Sel(be.Y) == "maxMsgSizeBytes" && ret && encLenCheck < 0 {
				encLenCheck = ifs.Pos()
			}
			return true
		})
		encWrite := c14FirstCall(enc, "wr.Write")
		if encWrite < 0 {
			return "", fmt.Errorf("anchor call not found: enc.wr.Write in WALEncoder.Encode")
		}
		encChecksLen := encLenCheck >= 0 && encLenCheck < encWrite
		crcFirst := len(puts) == 2 && ((puts[0] == "msg[0:4]=crc" && puts[1] == "msg[4:8]=length") || (puts[1] == "msg[0:4]=crc" && puts[0] == "msg[4:8]=length"))
		// --- Decode: length bound and checksum comparison before ser.DecodeBytes
		dec, err := e.funcDecl("consensus/wal.go", "WALDecoder", "Decode")
		if err != nil {
			return "", err
		}
		var lenCheck, crcCheck token.Pos = -1, -1
		ast.Inspect(dec.Body, func(n ast.Node) bool {
			ifs, ok := n.(*ast.IfStmt)
			if !ok {
				return true
			}
			be, ok := ifs.Cond.(*ast.BinaryExpr)
			if !ok {
				return true
			}
			l, r := c14Sel(be.X), c14Sel(be.Y)
			returnsErr := false
			for _, st := range ifs.Body.List {
				if _, ok := st.(*ast.ReturnStmt); ok {
					returnsErr = true
				}
			}
			if be.Op == token.GTR && l == "length" && r == "maxMsgSizeBytes" && returnsErr && lenCheck < 0 {
				lenCheck = ifs.Pos()
			}
			if be.Op == token.NEQ && ((l == "actualCRC" && r == "crc") || (l == "crc" && r == "actualCRC")) && returnsErr && crcCheck < 0 {
				crcCheck = ifs.Pos()
			}
			return true
		})
		mk := c14FirstCall(dec, "make")
		_ = mk
		sd := c14FirstCall(dec, "ser.DecodeBytes")
		if sd < 0 {
			return "", fmt.Errorf("anchor call not found: ser.DecodeBytes in WALDecoder.Decode")
		}
		decChecksLen := lenCheck >= 0 && lenCheck < sd
		decChecksCrc := crcCheck >= 0 && crcCheck < sd
		e.facts = append(e.facts,
			fact{"WalFacts", "const", "maxMsgSizeBytes", maxMsg, "consensus/wal.go"},
			fact{"WalFacts", "const", "headBufSize", bufSize, e.pos(og)},
			fact{"WalFacts", "callorder", "rotateFlushesBeforeRename", rotateFlushes, e.pos(rf)},
			fact{"WalFacts", "callorder", "encoderCrcThenLength", crcFirst, e.pos(enc)},
			fact{"WalFacts", "const", "reactorMaxMsgSize", reactorMax, "consensus/reactor.go"},
			fact{"WalFacts", "callorder", "encoderChecksLength", encChecksLen, e.pos(enc)},
			fact{"WalFacts", "callorder", "decoderChecksLength", decChecksLen, e.pos(dec)},
			fact{"WalFacts", "callorder", "decoderChecksCrcBeforeDecode", decChecksCrc, e.pos(dec)})
		var sb strings.Builder
		fmt.Fprintf(&sb, "/-- `consensus/wal.go` const maxMsgSizeBytes -/\ndef maxMsgSizeBytes : Nat := %d\n\n", maxMsg)
		fmt.Fprintf(&sb, "/-- `consensus/reactor.go` const maxMsgSize: the largest peer message the consensus reactor accepts -/\ndef reactorMaxMsgSize : Nat := %d\n\n", reactorMax)
		fmt.Fprintf(&sb, "/-- `%s` returns an error for length > maxMsgSizeBytes before the record reaches the writer -/\ndef encoderChecksLength : Bool := %s\n\n", e.pos(enc), leanBool(encChecksLen))
		fmt.Fprintf(&sb, "/-- `%s` size of the head bufio.Writer -/\ndef headBufSize : Nat := %d\n\n", e.pos(og), bufSize)
		fmt.Fprintf(&sb, "/-- `%s` calls headBuf.Flush before os.Rename -/\ndef rotateFlushesBeforeRename : Bool := %s\n\n", e.pos(rf), leanBool(rotateFlushes))
		fmt.Fprintf(&sb, "/-- `%s` writes crc at msg[0:4] and length at msg[4:8] -/\ndef encoderCrcThenLength : Bool := %s\n\n", e.pos(enc), leanBool(crcFirst))
		fmt.Fprintf(&sb, "/-- `%s` rejects length > maxMsgSizeBytes before allocating/decoding -/\ndef decoderChecksLength : Bool := %s\n\n", e.pos(dec), leanBool(decChecksLen))
		fmt.Fprintf(&sb, "/-- `%s` compares the checksum (and returns an error) before ser.DecodeBytes -/\ndef decoderChecksCrcBeforeDecode : Bool := %s\n", e.pos(dec), leanBool(decChecksCrc))
		return sb.String(), nil
	})
}
