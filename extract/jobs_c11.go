package main

// C11 (T2): every call of an io.Reader entry point of libs/ser outside libs/ser itself (non-test files of the packages that
// decode peer or stored input), with its reader and its input-limit argument, rendered as Lean data.
// The allocation clause of C11 rests, for these entry points, on the callers passing a limit (Props/C11Reader*.lean).

import (
	"bytes"
	"fmt"
	"go/ast"
	"go/printer"
	"os"
	"path/filepath"
	"sort"
	"strings"
)

func init() { register("C11ReaderSites", c11ReaderSites) }

func c11Src(e *env, n ast.Node) string {
	var b bytes.Buffer
	printer.Fprint(&b, e.fset, n)
	return strings.Join(strings.Fields(b.String()), " ")
}

func c11ReaderSites(e *env) (string, error) {
	roots := []string{"libs/p2p", "consensus", "blockchain", "mempool", "evidence", "state", "types", "app", "libs/autofile", "libs/db"}
	entry := map[string]int{ // function -> index of the limit argument (-1: none)
		"Decode": -1, "DecodeWithType": -1, "DecodeReader": 2, "DecodeReaderWithType": 2, "NewStream": 1, "NewListStream": 1,
	}
	type site struct{ file, fn, call, reader, limit string }
	var sites []site
	for _, root := range roots {
		dir := filepath.Join(e.repo, root)
		if _, err := os.Stat(dir); err != nil {
			continue
		}
		err := filepath.Walk(dir, func(path string, info os.FileInfo, err error) error {
			if err != nil || info.IsDir() || !strings.HasSuffix(path, ".go") || strings.HasSuffix(path, "_test.go") {
				return nil
			}
			rel, _ := filepath.Rel(e.repo, path)
			f, perr := e.parse(rel)
			if perr != nil {
				return perr
			}
			for _, d := range f.Decls {
				fd, ok := d.(*ast.FuncDecl)
				if !ok || fd.Body == nil {
					continue
				}
				ast.Inspect(fd.Body, func(n ast.Node) bool {
					ce, ok := n.(*ast.CallExpr)
					if !ok {
						return true
					}
					sel, ok := ce.Fun.(*ast.SelectorExpr)
					if !ok {
						return true
					}
					if id, ok := sel.X.(*ast.Ident); !ok || id.Name != "ser" {
						return true
					}
					li, ok := entry[sel.Sel.Name]
					if !ok || len(ce.Args) == 0 {
						return true
					}
					lim := "-"
					if li >= 0 {
						if li >= len(ce.Args) {
							lim = "?"
						} else {
							lim = c11Src(e, ce.Args[li])
						}
					}
					sites = append(sites, site{rel, fd.Name.Name, sel.Sel.Name, c11Src(e, ce.Args[0]), lim})
					return true
				})
			}
			return nil
		})
		if err != nil {
			return "", err
		}
	}
	if len(sites) == 0 {
		return "", fmt.Errorf("anchor not found: no reader entry point of libs/ser is called any more")
	}
	sort.Slice(sites, func(i, j int) bool {
		if sites[i].file != sites[j].file {
			return sites[i].file < sites[j].file
		}
		return sites[i].fn+sites[i].reader < sites[j].fn+sites[j].reader
	})
	var sb strings.Builder
	sb.WriteString("/-- (file, function, libs/ser entry point, reader argument, input-limit argument (\"-\" = the entry point takes none),\n    reader kind: bytes = a bytes.NewReader(…) expression | other, limit kind: none | zero (the literal 0) | expr) -/\n")
	sb.WriteString("def readerSites : List (String × String × String × String × String × String × String) := [\n")
	for i, s := range sites {
		c := ","
		if i == len(sites)-1 {
			c = ""
		}
		rk := "other"
		if strings.HasPrefix(s.reader, "bytes.NewReader(") || strings.HasPrefix(s.reader, "strings.NewReader(") {
			rk = "bytes"
		}
		lk := "expr"
		switch s.limit {
		case "-", "?":
			lk = "none"
		case "0", "int64(0)", "uint64(0)":
			lk = "zero"
		}
		fmt.Fprintf(&sb, "  (%q, %q, %q, %q, %q, %q, %q)%s\n", s.file, s.fn, s.call, s.reader, s.limit, rk, lk, c)
		e.facts = append(e.facts, fact{Module: "C11ReaderSites", Kind: "callsite", Name: s.file + ":" + s.fn, Value: []string{s.call, s.reader, s.limit}})
	}
	sb.WriteString("]\n\n")
	// the size guard of each reactor's decodeMsg (what Receive calls first on peer bytes) and the constant it compares with
	sb.WriteString("/-- (file, guard: the first statement of decodeMsg is `if len(bz) > maxMsgSize { return … }` | noguard, the source text of\n    the package's maxMsgSize constant, the decoder decodeMsg calls) -/\n")
	sb.WriteString("def decodeMsgGuards : List (String × String × String × String) := [\n")
	reactors := []string{"blockchain/reactor.go", "consensus/reactor.go", "evidence/reactor.go", "mempool/reactor.go"}
	for i, rel := range reactors {
		fd, err := e.funcDecl(rel, "", "decodeMsg")
		if err != nil {
			return "", fmt.Errorf("anchor function not found: %s: decodeMsg", rel)
		}
		guard := "noguard"
		if len(fd.Body.List) > 0 {
			if ifs, ok := fd.Body.List[0].(*ast.IfStmt); ok && c11Src(e, ifs.Cond) == "len(bz) > maxMsgSize" && len(ifs.Body.List) > 0 {
				if _, ok := ifs.Body.List[len(ifs.Body.List)-1].(*ast.ReturnStmt); ok {
					guard = "guard"
				}
			}
		}
		dec := ""
		ast.Inspect(fd.Body, func(n ast.Node) bool {
			if ce, ok := n.(*ast.CallExpr); ok {
				if sel, ok := ce.Fun.(*ast.SelectorExpr); ok {
					if id, ok := sel.X.(*ast.Ident); ok && id.Name == "ser" {
						dec = sel.Sel.Name
					}
				}
			}
			return true
		})
		max := "?"
		f, _ := e.parse(rel)
		for _, d := range f.Decls {
			if gd, ok := d.(*ast.GenDecl); ok {
				for _, sp := range gd.Specs {
					if vs, ok := sp.(*ast.ValueSpec); ok {
						for j, n := range vs.Names {
							if n.Name == "maxMsgSize" && j < len(vs.Values) {
								max = c11Src(e, vs.Values[j])
							}
						}
					}
				}
			}
		}
		c := ","
		if i == len(reactors)-1 {
			c = ""
		}
		fmt.Fprintf(&sb, "  (%q, %q, %q, %q)%s\n", rel, guard, max, dec, c)
		e.facts = append(e.facts, fact{Module: "C11ReaderSites", Kind: "guard", Name: rel + ":decodeMsg", Value: []string{guard, max, dec}})
	}
	sb.WriteString("]\n")
	return sb.String(), nil
}
