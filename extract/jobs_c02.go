package main

// C02 (T2): every place in defaultDoPrevote / enterPrecommit where the state machine signs a vote for a
// non-nil block, with the validation calls that dominate it (in source order) and the enclosing condition.

import (
	"bytes"
	"fmt"
	"go/ast"
	"go/printer"
	"strings"
)

func src(e *env, n ast.Node) string {
	var b bytes.Buffer
	printer.Fprint(&b, e.fset, n)
	return strings.Join(strings.Fields(b.String()), " ")
}

type voteSite struct {
	fn, cond, arg string
	guards        []string
	line          int
}

var c02Guards = map[string]bool{"ValidateBlock": true, "checkBlockEvidence": true, "CheckBlock": true}

func callsIn(n ast.Node, f func(name string, c *ast.CallExpr)) {
	if n == nil {
		return
	}
	ast.Inspect(n, func(x ast.Node) bool {
		if _, ok := x.(*ast.FuncLit); ok {
			return false
		}
		if c, ok := x.(*ast.CallExpr); ok {
			switch fn := c.Fun.(type) {
			case *ast.SelectorExpr:
				f(fn.Sel.Name, c)
			case *ast.Ident:
				f(fn.Name, c)
			}
		}
		return true
	})
}

func walkVoteSites(e *env, fn string, stmts []ast.Stmt, guards []string, cond string, out *[]voteSite) []string {
	for _, st := range stmts {
		switch s := st.(type) {
		case *ast.IfStmt:
			var condGuards []string
			callsIn(s.Init, func(name string, c *ast.CallExpr) {
				if c02Guards[name] {
					condGuards = append(condGuards, name)
				}
			})
			callsIn(s.Cond, func(name string, c *ast.CallExpr) {
				if c02Guards[name] {
					condGuards = append(condGuards, name)
				}
			})
			walkVoteSites(e, fn, s.Body.List, append([]string{}, guards...), src(e, s.Cond), out)
			if blk, ok := s.Else.(*ast.BlockStmt); ok {
				walkVoteSites(e, fn, blk.List, append([]string{}, guards...), "else of "+src(e, s.Cond), out)
			} else if ei, ok := s.Else.(*ast.IfStmt); ok {
				walkVoteSites(e, fn, []ast.Stmt{ei}, append([]string{}, guards...), cond, out)
			}
			guards = append(guards, condGuards...)
		case *ast.BlockStmt:
			guards = walkVoteSites(e, fn, s.List, guards, cond, out)
		default:
			callsIn(st, func(name string, c *ast.CallExpr) {
				if c02Guards[name] {
					guards = append(guards, name)
				}
				if name == "signAddVote" && len(c.Args) >= 2 {
					if id, ok := c.Args[1].(*ast.Ident); ok && id.Name == "nil" {
						return
					}
					*out = append(*out, voteSite{fn, cond, src(e, c.Args[1]), append([]string{}, guards...), e.fset.Position(c.Pos()).Line})
				}
			})
		}
	}
	return guards
}

func c02Str(s string) string { return "\"" + strings.ReplaceAll(strings.ReplaceAll(s, "\\", "\\\\"), "\"", "\\\"") + "\"" }

func c02StrList(xs []string) string {
	q := make([]string, len(xs))
	for i, x := range xs {
		q[i] = c02Str(x)
	}
	return "[" + strings.Join(q, ", ") + "]"
}

func init() {
	register("C02Facts", func(e *env) (string, error) {
		var sites []voteSite
		for _, fn := range []string{"defaultDoPrevote", "enterPrecommit"} {
			fd, err := e.funcDecl("consensus/state.go", "ConsensusState", fn)
			if err != nil {
				return "", err
			}
			walkVoteSites(e, fn, fd.Body.List, nil, "", &sites)
		}
		var sb strings.Builder
		sb.WriteString("/-- a place where a vote for a non-nil block is signed: function, enclosing condition, block-hash argument, validation calls dominating it -/\n")
		sb.WriteString("structure VoteSite where\n  fn : String\n  cond : String\n  arg : String\n  guards : List String\nderiving Repr, DecidableEq\n\n")
		sb.WriteString("def voteSites : List VoteSite := [\n")
		for i, s := range sites {
			sep := ","
			if i == len(sites)-1 {
				sep = ""
			}
			sb.WriteString(fmt.Sprintf("  { fn := %s, cond := %s, arg := %s, guards := %s }%s  -- consensus/state.go:%d\n", c02Str(s.fn), c02Str(s.cond), c02Str(s.arg), c02StrList(s.guards), sep, s.line))
			e.facts = append(e.facts, fact{Module: "C02Facts", Kind: "callsite", Name: s.fn, Value: map[string]interface{}{"cond": s.cond, "arg": s.arg, "guards": s.guards}, Pos: fmt.Sprintf("consensus/state.go:%d", s.line)})
		}
		sb.WriteString("]\n")
		// the checks validateBlock makes, in source order: every if-condition and every Verify* / Validate* call with its receiver
		vfd, err := e.funcDecl("consensus/validation.go", "", "validateBlock")
		if err != nil {
			return "", err
		}
		var checks []string
		ast.Inspect(vfd.Body, func(x ast.Node) bool {
			switch n := x.(type) {
			case *ast.IfStmt:
				checks = append(checks, "if "+src(e, n.Cond))
			case *ast.CallExpr:
				if sel, ok := n.Fun.(*ast.SelectorExpr); ok && (strings.HasPrefix(sel.Sel.Name, "Verify") || strings.HasPrefix(sel.Sel.Name, "Validate")) {
					checks = append(checks, "call "+src(e, n))
				} else if id, ok := n.Fun.(*ast.Ident); ok && (strings.HasPrefix(id.Name, "Verify") || strings.HasPrefix(id.Name, "Validate")) {
					checks = append(checks, "call "+src(e, n))
				}
			}
			return true
		})
		sb.WriteString("\n/-- validateBlock: every condition and every Verify*/Validate* call, in source order -/\n")
		sb.WriteString("def validateBlockChecks : List String := " + c02StrList(checks) + "\n")
		e.facts = append(e.facts, fact{Module: "C02Facts", Kind: "guards", Name: "validateBlock", Value: checks, Pos: e.pos(vfd)})
		return sb.String(), nil
	})
}
