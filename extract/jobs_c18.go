package main

// C18 (T2): constants and small structural facts of libs/p2p/conn, rendered as Lean data (Gen/ConnFacts.lean).
//   secret_connection.go  frame constants, the compiled-in frame mode, the `recvBuffer = chunk[n:]` remainder,
//                         the capacity test in Write, the rejections of MakeSecretConnection, the calls of shareEphPubKey
//   connection.go         packet payload / capacity defaults, where nextPacketMsg sets EOF, that recvPacketMsg tests the
//                         capacity before it appends
//   libs/p2p/*.go         non-test uses of SecretConnection.RemotePubKey (is the authenticated key ever consulted?),
//                         the top-level guards of Switch.addPeer in order

import (
	"bytes"
	"fmt"
	"go/ast"
	"go/printer"
	"go/token"
	"os"
	"path/filepath"
	"sort"
	"strconv"
	"strings"
)

func init() { register("ConnFacts", c18Facts) }

func c18Src(e *env, n ast.Node) string {
	var b bytes.Buffer
	printer.Fprint(&b, e.fset, n)
	return strings.Join(strings.Fields(b.String()), " ")
}

func c18Eval(x ast.Expr, env map[string]int64) (int64, error) {
	switch v := x.(type) {
	case *ast.BasicLit:
		if v.Kind == token.INT {
			return strconv.ParseInt(v.Value, 0, 64)
		}
	case *ast.ParenExpr:
		return c18Eval(v.X, env)
	case *ast.Ident:
		if n, ok := env[v.Name]; ok {
			return n, nil
		}
		return 0, fmt.Errorf("construct not in the supported subset: identifier %s in constant expression", v.Name)
	case *ast.CallExpr: // int64(5120000), byte(0x01)
		if len(v.Args) == 1 {
			if id, ok := v.Fun.(*ast.Ident); ok && (id.Name == "int64" || id.Name == "int" || id.Name == "byte") {
				return c18Eval(v.Args[0], env)
			}
		}
	case *ast.BinaryExpr:
		a, err := c18Eval(v.X, env)
		if err != nil {
			return 0, err
		}
		b, err := c18Eval(v.Y, env)
		if err != nil {
			return 0, err
		}
		switch v.Op {
		case token.ADD:
			return a + b, nil
		case token.SUB:
			return a - b, nil
		case token.MUL:
			return a * b, nil
		case token.OR:
			return a | b, nil
		case token.SHL:
			return a << uint(b), nil
		}
	}
	return 0, fmt.Errorf("construct not in the supported subset: constant expression")
}

// package-level const and var initialisers of one file, in source order; names that do not evaluate are skipped
// unless they are wanted
func c18Consts(e *env, rel string, want []string) (map[string]int64, error) {
	f, err := e.parse(rel)
	if err != nil {
		return nil, err
	}
	env := map[string]int64{}
	for _, d := range f.Decls {
		gd, ok := d.(*ast.GenDecl)
		if !ok || (gd.Tok != token.CONST && gd.Tok != token.VAR) {
			continue
		}
		for _, s := range gd.Specs {
			vs := s.(*ast.ValueSpec)
			for i, n := range vs.Names {
				if i < len(vs.Values) {
					if v, err := c18Eval(vs.Values[i], env); err == nil {
						env[n.Name] = v
					}
				}
			}
		}
	}
	for _, w := range want {
		if _, ok := env[w]; !ok {
			return nil, fmt.Errorf("anchor constant not found: %s: %s", rel, w)
		}
	}
	return env, nil
}

func c18Facts(e *env) (string, error) {
	var sb strings.Builder
	const scf = "libs/p2p/conn/secret_connection.go"
	const mcf = "libs/p2p/conn/connection.go"
	scWant := []string{"leadingSize", "dataLenSize", "headerSize", "dataMaxSize", "frameCapacity", "versionMusk", "version00", "typeMusk",
		"typeCompress", "typeEncrypt", "typeRaw", "leadingVersion", "leadingType"}
	sc, err := c18Consts(e, scf, scWant)
	if err != nil {
		return "", err
	}
	for _, n := range scWant {
		fmt.Fprintf(&sb, "/-- `%s` (%s) -/\ndef %s : Nat := %d\n\n", n, scf, n, sc[n])
		e.facts = append(e.facts, fact{Module: "ConnFacts", Kind: "const", Name: n, Value: sc[n], Pos: scf})
	}
	mcWant := []string{"defaultMaxPacketMsgPayloadSize", "defaultRecvMessageCapacity", "defaultRecvBufferCapacity", "defaultSendQueueCapacity"}
	mc, err := c18Consts(e, mcf, mcWant)
	if err != nil {
		return "", err
	}
	for _, n := range mcWant {
		fmt.Fprintf(&sb, "/-- `%s` (%s) -/\ndef %s : Nat := %d\n\n", n, mcf, n, mc[n])
		e.facts = append(e.facts, fact{Module: "ConnFacts", Kind: "const", Name: n, Value: mc[n], Pos: mcf})
	}

	// --- SecretConnection.Read: every assignment to sc.recvBuffer, as source text
	fd, err := e.funcDecl(scf, "SecretConnection", "Read")
	if err != nil {
		return "", err
	}
	var assigns []string
	ast.Inspect(fd.Body, func(n ast.Node) bool {
		if as, ok := n.(*ast.AssignStmt); ok && len(as.Lhs) == 1 && c18Src(e, as.Lhs[0]) == "sc.recvBuffer" {
			assigns = append(assigns, c18Src(e, as.Rhs[0]))
		}
		return true
	})
	fmt.Fprintf(&sb, "/-- right-hand sides assigned to `sc.recvBuffer` in `SecretConnection.Read`, in source order -/\ndef readRecvBufferAssigns : List String := %s\n\n", c18StrList(assigns))
	e.facts = append(e.facts, fact{Module: "ConnFacts", Kind: "assigns", Name: "Read.recvBuffer", Value: assigns, Pos: e.pos(fd)})

	// --- SecretConnection.Write: the chunk bound and the capacity test
	fd, err = e.funcDecl(scf, "SecretConnection", "Write")
	if err != nil {
		return "", err
	}
	var conds []string
	ast.Inspect(fd.Body, func(n ast.Node) bool {
		if is, ok := n.(*ast.IfStmt); ok {
			conds = append(conds, c18Src(e, is.Cond))
		}
		return true
	})
	fmt.Fprintf(&sb, "/-- `if` conditions of `SecretConnection.Write`, in source order -/\ndef writeConds : List String := %s\n\n", c18StrList(conds))

	// --- Channel.nextPacketMsg: the condition under which EOF = 1 is set
	fd, err = e.funcDecl(mcf, "Channel", "nextPacketMsg")
	if err != nil {
		return "", err
	}
	var eofs []string
	ast.Inspect(fd.Body, func(n ast.Node) bool {
		is, ok := n.(*ast.IfStmt)
		if !ok {
			return true
		}
		for br, blk := range []*ast.BlockStmt{is.Body, c18Else(is)} {
			if blk == nil {
				continue
			}
			for _, st := range blk.List {
				if as, ok := st.(*ast.AssignStmt); ok && len(as.Lhs) == 1 && c18Src(e, as.Lhs[0]) == "packet.EOF" {
					v, err := c18Eval(as.Rhs[0], nil)
					if err != nil {
						v = -1
					}
					eofs = append(eofs, fmt.Sprintf("(%q, %v, %d)", c18Src(e, is.Cond), br == 0, v))
				}
			}
		}
		return true
	})
	fmt.Fprintf(&sb, "/-- assignments to `packet.EOF` in `Channel.nextPacketMsg`: (if-condition, in the then-branch?, value) -/\ndef nextPacketEOF : List (String × Bool × Int) := [%s]\n\n", strings.Join(eofs, ", "))

	// --- Channel.recvPacketMsg: statement kinds in order: the capacity `if` must precede the append
	fd, err = e.funcDecl(mcf, "Channel", "recvPacketMsg")
	if err != nil {
		return "", err
	}
	var steps []string
	for _, st := range fd.Body.List {
		switch s := st.(type) {
		case *ast.IfStmt:
			steps = append(steps, "if "+c18Src(e, s.Cond))
		case *ast.AssignStmt:
			steps = append(steps, c18Src(e, s))
		case *ast.DeclStmt:
			steps = append(steps, c18Src(e, s))
		case *ast.ReturnStmt:
			steps = append(steps, c18Src(e, s))
		default:
			steps = append(steps, "other")
		}
	}
	fmt.Fprintf(&sb, "/-- top-level statements of `Channel.recvPacketMsg`, in order -/\ndef recvPacketSteps : List String := %s\n\n", c18StrList(steps))

	// --- MakeSecretConnection: the two rejections after shareAuthSignature
	fd, err = e.funcDecl(scf, "", "MakeSecretConnection")
	if err != nil {
		return "", err
	}
	var hconds []string
	ast.Inspect(fd.Body, func(n ast.Node) bool {
		if is, ok := n.(*ast.IfStmt); ok {
			hconds = append(hconds, c18Src(e, is.Cond))
		}
		return true
	})
	fmt.Fprintf(&sb, "/-- `if` conditions of `MakeSecretConnection`, in source order -/\ndef handshakeConds : List String := %s\n\n", c18StrList(hconds))

	// --- shareEphPubKey: which functions it calls (qualified selectors), in source order without duplicates
	fd, err = e.funcDecl(scf, "", "shareEphPubKey")
	if err != nil {
		return "", err
	}
	var calls []string
	seenCall := map[string]bool{}
	ast.Inspect(fd.Body, func(n ast.Node) bool {
		if ce, ok := n.(*ast.CallExpr); ok {
			if sel, ok := ce.Fun.(*ast.SelectorExpr); ok {
				if id, ok := sel.X.(*ast.Ident); ok {
					name := id.Name + "." + sel.Sel.Name
					if !seenCall[name] {
						seenCall[name] = true
						calls = append(calls, name)
					}
				}
			}
		}
		return true
	})
	fmt.Fprintf(&sb, "/-- package-qualified / receiver-qualified calls made in `shareEphPubKey`, first occurrences in source order -/\ndef ephKeyCalls : List String := %s\n\n", c18StrList(calls))
	e.facts = append(e.facts, fact{Module: "ConnFacts", Kind: "callsite", Name: "shareEphPubKey.calls", Value: calls, Pos: e.pos(fd)})

	// --- who consults the authenticated key?  non-test files under libs/p2p (outside conn/) mentioning RemotePubKey
	var users []string
	root := filepath.Join(e.repo, "libs/p2p")
	filepath.Walk(root, func(p string, info os.FileInfo, err error) error {
		if err != nil || info.IsDir() || !strings.HasSuffix(p, ".go") || strings.HasSuffix(p, "_test.go") {
			return nil
		}
		rel, _ := filepath.Rel(e.repo, p)
		if strings.HasPrefix(rel, "libs/p2p/conn/") {
			return nil
		}
		f, perr := e.parse(rel)
		if perr != nil {
			return nil
		}
		ast.Inspect(f, func(n ast.Node) bool {
			if sel, ok := n.(*ast.SelectorExpr); ok && sel.Sel.Name == "RemotePubKey" {
				users = append(users, e.pos(sel))
			}
			return true
		})
		return nil
	})
	// --- peer.Send / peer.TrySend: the conditions under which they refuse before reaching the MConnection
	for _, fn := range []string{"Send", "TrySend"} {
		fd, err = e.funcDecl("libs/p2p/peer.go", "peer", fn)
		if err != nil {
			return "", err
		}
		var cs []string
		ast.Inspect(fd.Body, func(n ast.Node) bool {
			if is, ok := n.(*ast.IfStmt); ok {
				cs = append(cs, c18Src(e, is.Cond))
			}
			return true
		})
		fmt.Fprintf(&sb, "/-- `if` conditions of `peer.%s`, in source order -/\ndef peer%sGuards : List String := %s\n\n", fn, fn, c18StrList(cs))
	}

	// --- Switch.addPeer: its top-level guards ("init; cond" of every top-level if), in source order
	fd, err = e.funcDecl("libs/p2p/switch.go", "Switch", "addPeer")
	if err != nil {
		return "", err
	}
	var guards []string
	for _, st := range fd.Body.List {
		if is, ok := st.(*ast.IfStmt); ok {
			g := c18Src(e, is.Cond)
			if is.Init != nil {
				g = c18Src(e, is.Init) + "; " + g
			}
			guards = append(guards, g)
		}
		// assignments to the peer-supplied cache of the node ID are listed too (where it is cleared matters)
		if as, ok := st.(*ast.AssignStmt); ok && len(as.Lhs) == 1 && c18Src(e, as.Lhs[0]) == "peerNodeInfo.CachePeerID" {
			guards = append(guards, c18Src(e, as))
		}
	}
	fmt.Fprintf(&sb, "/-- top-level `if` guards of `Switch.addPeer` (\"init; cond\") and assignments to `peerNodeInfo.CachePeerID`, in source order -/\ndef addPeerGuards : List String := %s\n\n", c18StrList(guards))
	e.facts = append(e.facts, fact{Module: "ConnFacts", Kind: "callorder", Name: "addPeer.guards", Value: guards, Pos: e.pos(fd)})

	sort.Strings(users)
	fmt.Fprintf(&sb, "/-- uses of `RemotePubKey` in non-test files of libs/p2p outside conn/ (where a peer's identity is decided) -/\ndef remotePubKeyUses : List String := %s\n", c18StrList(users))
	e.facts = append(e.facts, fact{Module: "ConnFacts", Kind: "callsite", Name: "RemotePubKey", Value: users, Pos: "libs/p2p"})
	return sb.String(), nil
}

func c18Else(is *ast.IfStmt) *ast.BlockStmt {
	if b, ok := is.Else.(*ast.BlockStmt); ok {
		return b
	}
	return nil
}

func c18StrList(xs []string) string {
	q := make([]string, len(xs))
	for i, x := range xs {
		q[i] = strconv.Quote(x)
	}
	return "[" + strings.Join(q, ", ") + "]"
}
