package main

// go2lean: a deliberately tiny Go -> Lean translator for whitelisted leaf functions
// (pure integer arithmetic with if/else, early return, := and calls to other whitelisted
// functions).  Anything outside the subset is refused loudly (the refusal is a broken
// obligation for the property that consumes the definition).
//
// Semantics emitted:
//   int64/int   -> Int, every + - * wrapped with Go.wrapI64, / is Int.tdiv (wrapped), % is Int.tmod
//   uint64/uint -> Int, every + - * wrapped with Go.wrapU64, / is Int.tdiv (non-negative operands), % is Int.tmod
//   bool        -> Bool (comparisons via `decide`)
//   multiple results -> tuples

import (
	"fmt"
	"go/ast"
	"go/token"
	"strings"
)

type t1ctx struct {
	fset    *token.FileSet
	known   map[string]bool   // whitelisted function names in this module
	consts  map[string]string // package-level integer constants usable in bodies
	vartype map[string]string // local variable kinds: "i64", "u64", "bool"
	fn      string
}

type refusal struct{ msg string }

func (c *t1ctx) refuse(n ast.Node, format string, a ...interface{}) {
	pos := ""
	if n != nil {
		pos = c.fset.Position(n.Pos()).String() + ": "
	}
	panic(refusal{pos + c.fn + ": " + fmt.Sprintf(format, a...)})
}

func kindOfType(e ast.Expr) string {
	id, ok := e.(*ast.Ident)
	if !ok {
		return ""
	}
	switch id.Name {
	case "int64", "int", "int32", "int8":
		return "i64"
	case "uint64", "uint", "uint32", "uint8", "byte":
		return "u64"
	case "bool":
		return "bool"
	}
	return ""
}

func leanType(k string) string {
	if k == "bool" {
		return "Bool"
	}
	return "Int"
}

// translateFunc returns the Lean definition text of fd.
func (c *t1ctx) translateFunc(fd *ast.FuncDecl) (out string, err error) {
	defer func() {
		if r := recover(); r != nil {
			if rf, ok := r.(refusal); ok {
				err = fmt.Errorf("go2lean refuses: %s", rf.msg)
				return
			}
			panic(r)
		}
	}()
	c.fn = fd.Name.Name
	c.vartype = map[string]string{}
	var params []string
	for _, f := range fd.Type.Params.List {
		k := kindOfType(f.Type)
		if k == "" {
			c.refuse(f, "parameter type not in subset")
		}
		for _, n := range f.Names {
			c.vartype[n.Name] = k
			params = append(params, fmt.Sprintf("(%s : %s)", leanIdent(n.Name), leanType(k)))
		}
	}
	var rts []string
	var rkinds []string
	if fd.Type.Results != nil {
		for _, f := range fd.Type.Results.List {
			k := kindOfType(f.Type)
			if k == "" {
				c.refuse(f, "result type not in subset")
			}
			n := len(f.Names)
			if n == 0 {
				n = 1
			}
			for i := 0; i < n; i++ {
				rts = append(rts, leanType(k))
				rkinds = append(rkinds, k)
			}
		}
	}
	if len(rts) == 0 {
		c.refuse(fd, "no result")
	}
	body := c.block(fd.Body.List, 1)
	return fmt.Sprintf("def %s %s : %s :=\n%s\n", leanIdent(fd.Name.Name), strings.Join(params, " "), strings.Join(rts, " × "), body), nil
}

func leanIdent(s string) string {
	switch s {
	case "end", "at", "from", "to", "in", "then", "fun", "open", "show", "have", "by", "do", "with":
		return s + "'"
	}
	return s
}

func ind(n int) string { return strings.Repeat("  ", n) }

// block translates a statement list that must end (on every path) in a return.
func (c *t1ctx) block(stmts []ast.Stmt, depth int) string {
	if len(stmts) == 0 {
		c.refuse(nil, "path without return")
	}
	s, rest := stmts[0], stmts[1:]
	switch st := s.(type) {
	case *ast.ReturnStmt:
		var es []string
		for _, r := range st.Results {
			e, _ := c.expr(r)
			es = append(es, e)
		}
		if len(es) == 0 {
			c.refuse(st, "bare return")
		}
		if len(es) == 1 {
			return ind(depth) + es[0]
		}
		return ind(depth) + "(" + strings.Join(es, ", ") + ")"
	case *ast.IfStmt:
		if st.Init != nil {
			c.refuse(st, "if with init")
		}
		cond, k := c.expr(st.Cond)
		if k != "bool" {
			c.refuse(st, "non-bool condition")
		}
		thenStmts := append(append([]ast.Stmt{}, st.Body.List...), rest...)
		var elseStmts []ast.Stmt
		switch e := st.Else.(type) {
		case nil:
			elseStmts = rest
		case *ast.BlockStmt:
			elseStmts = append(append([]ast.Stmt{}, e.List...), rest...)
		case *ast.IfStmt:
			elseStmts = append([]ast.Stmt{e}, rest...)
		default:
			c.refuse(st, "else form")
		}
		saved := c.copyVars()
		t := c.block(thenStmts, depth+1)
		c.vartype = saved
		saved = c.copyVars()
		e := c.block(elseStmts, depth+1)
		c.vartype = saved
		return fmt.Sprintf("%sif %s then\n%s\n%selse\n%s", ind(depth), cond, t, ind(depth), e)
	case *ast.AssignStmt:
		if st.Tok != token.DEFINE && st.Tok != token.ASSIGN {
			c.refuse(st, "assignment operator %s", st.Tok)
		}
		if len(st.Rhs) != 1 {
			c.refuse(st, "parallel assignment")
		}
		var names []string
		for _, l := range st.Lhs {
			id, ok := l.(*ast.Ident)
			if !ok {
				c.refuse(st, "assignment target not an identifier")
			}
			names = append(names, id.Name)
		}
		rhs, k := c.expr(st.Rhs[0])
		if len(names) == 1 {
			c.vartype[names[0]] = k
			return fmt.Sprintf("%slet %s := %s\n%s", ind(depth), leanIdent(names[0]), rhs, c.block(rest, depth))
		}
		ks := strings.Split(k, ",")
		if len(ks) != len(names) {
			c.refuse(st, "tuple arity")
		}
		var ln []string
		for i, n := range names {
			c.vartype[n] = ks[i]
			if n == "_" {
				ln = append(ln, "_")
			} else {
				ln = append(ln, leanIdent(n))
			}
		}
		return fmt.Sprintf("%slet (%s) := %s\n%s", ind(depth), strings.Join(ln, ", "), rhs, c.block(rest, depth))
	}
	c.refuse(s, "statement %T not in subset", s)
	return ""
}

func (c *t1ctx) copyVars() map[string]string {
	m := map[string]string{}
	for k, v := range c.vartype {
		m[k] = v
	}
	return m
}

var funcSigs = map[string]string{} // name -> result kinds "i64,bool"

func (c *t1ctx) expr(e ast.Expr) (string, string) {
	switch x := e.(type) {
	case *ast.ParenExpr:
		s, k := c.expr(x.X)
		return "(" + s + ")", k
	case *ast.Ident:
		if x.Name == "true" || x.Name == "false" {
			return x.Name, "bool"
		}
		if k, ok := c.vartype[x.Name]; ok {
			return leanIdent(x.Name), k
		}
		if v, ok := c.consts[x.Name]; ok {
			return "(" + v + ")", "i64"
		}
		c.refuse(x, "unknown identifier %s", x.Name)
	case *ast.BasicLit:
		if x.Kind != token.INT {
			c.refuse(x, "literal kind")
		}
		return "(" + x.Value + " : Int)", "lit"
	case *ast.SelectorExpr:
		if p, ok := x.X.(*ast.Ident); ok && p.Name == "math" {
			switch x.Sel.Name {
			case "MaxInt64":
				return "Go.maxI64", "i64"
			case "MinInt64":
				return "Go.minI64", "i64"
			case "MaxUint64":
				return "Go.maxU64", "u64"
			}
		}
		c.refuse(x, "selector not in subset")
	case *ast.UnaryExpr:
		s, k := c.expr(x.X)
		switch x.Op {
		case token.NOT:
			if k != "bool" {
				c.refuse(x, "! on non-bool")
			}
			return "(!" + s + ")", "bool"
		case token.SUB:
			if k == "lit" {
				return "(-" + s + ")", "lit"
			}
			if k == "i64" {
				return "(Go.wrapI64 (-" + s + "))", "i64"
			}
		}
		c.refuse(x, "unary op")
	case *ast.BinaryExpr:
		l, lk := c.expr(x.X)
		r, rk := c.expr(x.Y)
		k := lk
		if k == "lit" {
			k = rk
		}
		if lk != rk && lk != "lit" && rk != "lit" {
			c.refuse(x, "mixed operand kinds %s %s", lk, rk)
		}
		switch x.Op {
		case token.LAND:
			return "(" + l + " && " + r + ")", "bool"
		case token.LOR:
			return "(" + l + " || " + r + ")", "bool"
		case token.EQL, token.NEQ, token.LSS, token.LEQ, token.GTR, token.GEQ:
			if k == "bool" {
				if x.Op == token.EQL {
					return "(" + l + " == " + r + ")", "bool"
				}
				if x.Op == token.NEQ {
					return "(" + l + " != " + r + ")", "bool"
				}
				c.refuse(x, "ordering on bool")
			}
			op := map[token.Token]string{token.EQL: "=", token.NEQ: "≠", token.LSS: "<", token.LEQ: "≤", token.GTR: ">", token.GEQ: "≥"}[x.Op]
			return "(decide (" + l + " " + op + " " + r + "))", "bool"
		case token.ADD, token.SUB, token.MUL:
			if k == "lit" {
				return "(" + l + " " + x.Op.String() + " " + r + ")", "lit"
			}
			w := "Go.wrapI64"
			if k == "u64" {
				w = "Go.wrapU64"
			}
			return "(" + w + " (" + l + " " + x.Op.String() + " " + r + "))", k
		case token.QUO:
			w := "Go.wrapI64"
			if k == "u64" {
				w = "Go.wrapU64"
			}
			return "(" + w + " (Int.tdiv " + l + " " + r + "))", k
		case token.REM:
			return "(Int.tmod " + l + " " + r + ")", k
		}
		c.refuse(x, "binary op %s", x.Op)
	case *ast.CallExpr:
		if id, ok := x.Fun.(*ast.Ident); ok {
			// conversions
			if kk := kindOfType(id); kk != "" && len(x.Args) == 1 {
				s, k := c.expr(x.Args[0])
				if k == kk || k == "lit" {
					return s, kk
				}
				if kk == "i64" {
					return "(Go.wrapI64 " + s + ")", kk
				}
				return "(Go.wrapU64 " + s + ")", kk
			}
			if c.known[id.Name] {
				var as []string
				for _, a := range x.Args {
					s, _ := c.expr(a)
					as = append(as, s)
				}
				sig := funcSigs[id.Name]
				if sig == "" {
					c.refuse(x, "call to %s before its definition was translated", id.Name)
				}
				return "(" + leanIdent(id.Name) + " " + strings.Join(as, " ") + ")", sig
			}
		}
		c.refuse(x, "call not in subset")
	}
	c.refuse(e, "expression %T not in subset", e)
	return "", ""
}

func resultKinds(fd *ast.FuncDecl) string {
	var ks []string
	for _, f := range fd.Type.Results.List {
		n := len(f.Names)
		if n == 0 {
			n = 1
		}
		for i := 0; i < n; i++ {
			ks = append(ks, kindOfType(f.Type))
		}
	}
	return strings.Join(ks, ",")
}
