package main

// C12 (T2): structural facts about block identity and part admission, rendered as Lean data.
//   - the field list of struct Header / Block / Data / Commit / EvidenceData (name, serialised?)
//   - the key set of the map literal in Header.Hash, each with the header field its value hashes
//   - the guard conditions of PartSet.AddPart with their return statements, in order

import (
	"bytes"
	"fmt"
	"go/ast"
	"go/printer"
	"go/token"
	"reflect"
	"strconv"
	"strings"
)

func init() { register("BlockId", c12Facts) }

func c12Src(e *env, n ast.Node) string {
	var b bytes.Buffer
	printer.Fprint(&b, e.fset, n)
	return strings.Join(strings.Fields(b.String()), " ")
}

func c12Struct(e *env, rel, name string) (*ast.StructType, error) {
	f, err := e.parse(rel)
	if err != nil {
		return nil, err
	}
	for _, d := range f.Decls {
		gd, ok := d.(*ast.GenDecl)
		if !ok || gd.Tok != token.TYPE {
			continue
		}
		for _, s := range gd.Specs {
			ts := s.(*ast.TypeSpec)
			if ts.Name.Name == name {
				if st, ok := ts.Type.(*ast.StructType); ok {
					return st, nil
				}
			}
		}
	}
	return nil, fmt.Errorf("anchor struct not found: %s: %s", rel, name)
}

// (field name, serialised by libs/ser: exported and not tagged rlp:"-")
func c12Fields(e *env, rel, name string) (string, error) {
	st, err := c12Struct(e, rel, name)
	if err != nil {
		return "", err
	}
	var items []string
	var vals [][2]interface{}
	for _, fl := range st.Fields.List {
		var names []string
		for _, n := range fl.Names {
			names = append(names, n.Name)
		}
		if len(names) == 0 { // embedded
			t := fl.Type
			if s, ok := t.(*ast.StarExpr); ok {
				t = s.X
			}
			if sel, ok := t.(*ast.SelectorExpr); ok {
				names = []string{sel.Sel.Name}
			} else if id, ok := t.(*ast.Ident); ok {
				names = []string{id.Name}
			} else {
				return "", fmt.Errorf("construct not in the supported subset: embedded field of %s at %s", name, e.pos(fl))
			}
		}
		skip := false
		if fl.Tag != nil {
			if s, err := strconv.Unquote(fl.Tag.Value); err == nil {
				if reflect.StructTag(s).Get("rlp") == "-" {
					skip = true
				}
			}
		}
		for _, n := range names {
			ser := ast.IsExported(n) && !skip
			items = append(items, fmt.Sprintf("(%q, %v)", n, ser))
			vals = append(vals, [2]interface{}{n, ser})
		}
	}
	e.facts = append(e.facts, fact{Module: "BlockId", Kind: "fieldlist", Name: name, Value: vals, Pos: e.pos(st)})
	return "[" + strings.Join(items, ", ") + "]", nil
}

func c12Facts(e *env) (string, error) {
	var sb strings.Builder
	for _, s := range []struct{ lean, rel, name string }{
		{"headerFields", "types/block.go", "Header"},
		{"blockFields", "types/block.go", "Block"},
		{"dataFields", "types/block.go", "Data"},
		{"commitFields", "types/block.go", "Commit"},
		{"evidenceDataFields", "types/block.go", "EvidenceData"},
		{"partSetHeaderFields", "types/part_set.go", "PartSetHeader"},
		{"blockIDFields", "types/block.go", "BlockID"},
	} {
		l, err := c12Fields(e, s.rel, s.name)
		if err != nil {
			return "", err
		}
		fmt.Fprintf(&sb, "/-- fields of `%s` (%s): (name, serialised by libs/ser = exported and not tagged rlp:\"-\") -/\ndef %s : List (String × Bool) :=\n  %s\n\n", s.name, s.rel, s.lean, l)
	}

	// Header.Hash: the one map literal, its keys and the header field each value hashes
	fd, err := e.funcDecl("types/block.go", "Header", "Hash")
	if err != nil {
		return "", err
	}
	recv := fd.Recv.List[0].Names[0].Name
	var lits []*ast.CompositeLit
	ast.Inspect(fd.Body, func(n ast.Node) bool {
		if cl, ok := n.(*ast.CompositeLit); ok {
			if _, ok := cl.Type.(*ast.MapType); ok {
				lits = append(lits, cl)
			}
		}
		return true
	})
	if len(lits) != 1 {
		return "", fmt.Errorf("construct not in the supported subset: Header.Hash has %d map literals", len(lits))
	}
	var keys []string
	var kv [][2]string
	for _, el := range lits[0].Elts {
		p, ok := el.(*ast.KeyValueExpr)
		if !ok {
			return "", fmt.Errorf("construct not in the supported subset: map element at %s", e.pos(el))
		}
		k, ok := p.Key.(*ast.BasicLit)
		if !ok || k.Kind != token.STRING {
			return "", fmt.Errorf("construct not in the supported subset: non-literal map key at %s", e.pos(p))
		}
		ks, _ := strconv.Unquote(k.Value)
		// value must be aminoHasher(<recv>.<Field>)
		call, ok := p.Value.(*ast.CallExpr)
		field := ""
		if ok && len(call.Args) == 1 {
			if fn, ok := call.Fun.(*ast.Ident); ok && fn.Name == "aminoHasher" {
				if sel, ok := call.Args[0].(*ast.SelectorExpr); ok {
					if x, ok := sel.X.(*ast.Ident); ok && x.Name == recv {
						field = sel.Sel.Name
					}
				}
			}
		}
		if field == "" {
			return "", fmt.Errorf("construct not in the supported subset: Header.Hash value %q at %s is not aminoHasher(%s.<Field>)", c12Src(e, p.Value), e.pos(p), recv)
		}
		keys = append(keys, fmt.Sprintf("(%q, %q)", ks, field))
		kv = append(kv, [2]string{ks, field})
	}
	e.facts = append(e.facts, fact{Module: "BlockId", Kind: "mapkeys", Name: "Header.Hash", Value: kv, Pos: e.pos(lits[0])})
	fmt.Fprintf(&sb, "/-- the map literal of `Header.Hash` (%s): (key, header field whose aminoHasher is the value), in source order -/\ndef headerHashKeys : List (String × String) :=\n  [%s]\n\n", e.pos(lits[0]), strings.Join(keys, ",\n   "))

	// AddPart: the if-conditions in order, each with "returns"/"other", then the remaining statements
	ap, err := e.funcDecl("types/part_set.go", "PartSet", "AddPart")
	if err != nil {
		return "", err
	}
	var guards []string
	for _, st := range ap.Body.List {
		switch s := st.(type) {
		case *ast.IfStmt:
			if s.Init != nil || s.Else != nil {
				return "", fmt.Errorf("construct not in the supported subset: AddPart if with init/else at %s", e.pos(s))
			}
			ret := ""
			if n := len(s.Body.List); n == 1 {
				if r, ok := s.Body.List[0].(*ast.ReturnStmt); ok {
					ret = c12Src(e, r)
				}
			}
			if ret == "" {
				return "", fmt.Errorf("construct not in the supported subset: AddPart guard body at %s", e.pos(s))
			}
			guards = append(guards, fmt.Sprintf("(%q, %q)", c12Src(e, s.Cond), ret))
		}
	}
	e.facts = append(e.facts, fact{Module: "BlockId", Kind: "callorder", Name: "PartSet.AddPart guards", Value: guards, Pos: e.pos(ap)})
	fmt.Fprintf(&sb, "/-- `PartSet.AddPart` (%s): the guards (condition, return statement) in order -/\ndef addPartGuards : List (String × String) :=\n  [%s]\n\n", e.pos(ap), strings.Join(guards, ",\n   "))
	// fix 1b2bd5e: the two entry points that take a part-set header from a peer compare Total with 0 and with
	// maxBlockParts() before anything is sized by it (NewPartSetFromHeader / PeerState.SetHasProposal)
	var rows []string
	for _, g := range []struct {
		name, file, recv, fn, op string
		want                     []string
	}{
		{"defaultSetProposal", "consensus/state.go", "ConsensusState", "defaultSetProposal", "types.NewPartSetFromHeader(proposal.BlockPartsHeader)",
			[]string{"proposal.BlockPartsHeader.Total <= 0", "proposal.BlockPartsHeader.Total > cs.maxBlockParts()"}},
		{"ConsensusReactor.Receive", "consensus/reactor.go", "ConsensusReactor", "Receive", "ps.SetHasProposal(msg.Proposal)",
			[]string{"msg.Proposal.BlockPartsHeader.Total <= 0", "msg.Proposal.BlockPartsHeader.Total > maxParts"}},
	} {
		fd, err := e.funcDecl(g.file, g.recv, g.fn)
		if err != nil {
			return "", err
		}
		found, have := guardedBy(e, fd, g.op, g.want)
		var hs []string
		for _, h := range have {
			hs = append(hs, strconv.Quote(h))
		}
		rows = append(rows, fmt.Sprintf("(%q, %v, [%s])", g.name, found, strings.Join(hs, ", ")))
		e.facts = append(e.facts, fact{Module: "BlockId", Kind: "guard", Name: "partsTotal:" + g.name, Value: map[string]interface{}{"found": found, "have": have}, Pos: g.file + ":" + g.fn})
	}
	// the bound itself: the return expressions of maxBlockParts
	mb, err := e.funcDecl("consensus/state.go", "ConsensusState", "maxBlockParts")
	if err != nil {
		return "", err
	}
	var rets []string
	ast.Inspect(mb.Body, func(n ast.Node) bool {
		if r, ok := n.(*ast.ReturnStmt); ok {
			rets = append(rets, strconv.Quote(c12Src(e, r)))
		}
		return true
	})
	e.facts = append(e.facts, fact{Module: "BlockId", Kind: "source", Name: "maxBlockParts returns", Value: rets, Pos: e.pos(mb)})
	fmt.Fprintf(&sb, "/-- (entry point, the sized operation was found, the guard conditions on `BlockPartsHeader.Total` that precede it) -/\ndef partsTotalGuards : List (String × Bool × List String) :=\n  [%s]\n\n", strings.Join(rows, ",\n   "))
	fmt.Fprintf(&sb, "/-- the return statements of `ConsensusState.maxBlockParts` (%s) -/\ndef maxBlockPartsReturns : List String :=\n  [%s]\n\n", e.pos(mb), strings.Join(rets, ", "))
	// ---- reassembly sites (coverage round): which comparison / loop bound / key format the code uses
	type site struct {
		name, file, recv, fn string
		// node kind: "assign" (first assignment whose LHS is lhs), "call" (first call whose Fun text is fun), "ifcond" (condition of the
		// first if statement whose body contains needle), "forcond" (condition of the first for statement whose body contains needle)
		kind, key string
	}
	var srows []string
	for _, st := range []site{
		{"fastsync.firstParts", "blockchain/reactor.go", "BlockchainReactor", "poolRoutine", "assign", "firstParts"},
		{"fastsync.firstPartsHeader", "blockchain/reactor.go", "BlockchainReactor", "poolRoutine", "assign", "firstPartsHeader"},
		{"fastsync.firstID", "blockchain/reactor.go", "BlockchainReactor", "poolRoutine", "assign", "firstID"},
		{"fastsync.VerifyCommit", "blockchain/reactor.go", "BlockchainReactor", "poolRoutine", "call", "status.Validators.VerifyCommit"},
		{"consensus.decodeWhen", "consensus/state.go", "ConsensusState", "addProposalBlockPart", "ifcond", "cs.ProposalBlockParts.GetReader()"},
		{"consensus.decodeFrom", "consensus/state.go", "ConsensusState", "addProposalBlockPart", "call", "ser.DecodeReader"},
		{"store.partKey", "blockchain/store.go", "", "calcBlockPartKey", "call", "fmt.Sprintf"},
		{"store.loadBlockLoop", "blockchain/store.go", "BlockStore", "LoadBlock", "forcond", "bs.LoadBlockPart(height, i)"},
		{"store.saveLoop", "blockchain/store.go", "BlockStore", "SaveBlock", "forcond", "bs.saveBlockPart(height, i, part, bsBatch)"},
		{"store.saveComplete", "blockchain/store.go", "BlockStore", "SaveBlock", "ifcond", "complete block part sets"},
	} {
		fd, err := e.funcDecl(st.file, st.recv, st.fn)
		if err != nil {
			return "", err
		}
		text := ""
		ast.Inspect(fd.Body, func(n ast.Node) bool {
			if text != "" || n == nil {
				return false
			}
			switch x := n.(type) {
			case *ast.AssignStmt:
				if st.kind == "assign" && len(x.Lhs) == 1 && c12Src(e, x.Lhs[0]) == st.key {
					text = c12Src(e, x)
				}
			case *ast.CallExpr:
				if st.kind == "call" && c12Src(e, x.Fun) == st.key {
					text = c12Src(e, x)
				}
			case *ast.IfStmt:
				if st.kind == "ifcond" && strings.Contains(c12Src(e, x.Body), st.key) {
					text = c12Src(e, x.Cond)
				}
			case *ast.ForStmt:
				if st.kind == "forcond" && x.Cond != nil && strings.Contains(c12Src(e, x.Body), st.key) {
					text = c12Src(e, x.Cond)
				}
			}
			return true
		})
		if text == "" {
			return "", fmt.Errorf("anchor site not found: %s in %s:%s", st.name, st.file, st.fn)
		}
		srows = append(srows, fmt.Sprintf("(%q, %s)", st.name, strconv.Quote(text)))
		e.facts = append(e.facts, fact{Module: "BlockId", Kind: "source", Name: st.name, Value: text, Pos: st.file + ":" + st.fn})
	}
	fmt.Fprintf(&sb, "/-- reassembly sites: (name, source text) -/\ndef reassemblySites : List (String × String) :=\n  [%s]\n\n", strings.Join(srows, ",\n   "))
	return sb.String(), nil
}
