package main

// C07 / C06 (T2): the structural tests of (*UTXOTransaction).checkTxSemantic (types/tx_utxo.go) that the stub library cannot
// exercise behaviourally, rendered as Lean data:
//   - in the `case *UTXOInput:` clause of the type switch over tx.Inputs: every `if C { return R }` (also inside nested loops),
//     in source order, as (C, R); every call of package ringct as (function, arguments); the variable the ScalarmultKey
//     result is assigned to.  The key-image DOMAIN check — ScalarmultKey(input.KeyImage, CurveOrder()) compared with
//     Identity() by `!=`, returning ErrCheckKeyImageInvalid — is what makes "one output <-> one key image" true; the stub
//     reduces scalars mod l, so no run can see it;
//   - the same for the `case *AccountInput:` clause (amount >= one unit AND a whole number of units);
//   - the method calls on the receiver in CheckBasic, in source order (the semantic check precedes every signature / proof check).

import (
	"fmt"
	"go/ast"
	"strings"
)

func init() { register("C07Facts", c07Facts) }

func c07Clause(e *env, fd *ast.FuncDecl, typ string) (*ast.CaseClause, error) {
	var found *ast.CaseClause
	ast.Inspect(fd.Body, func(n ast.Node) bool {
		rs, ok := n.(*ast.RangeStmt)
		if !ok || found != nil {
			return found == nil
		}
		if src(e, rs.X) != "tx.Inputs" {
			return true
		}
		for _, st := range rs.Body.List {
			ts, ok := st.(*ast.TypeSwitchStmt)
			if !ok {
				continue
			}
			for _, c := range ts.Body.List {
				cc := c.(*ast.CaseClause)
				for _, t := range cc.List {
					if src(e, t) == typ {
						found = cc
					}
				}
			}
		}
		return false
	})
	if found == nil {
		return nil, fmt.Errorf("checkTxSemantic: no `case %s:` in a type switch over tx.Inputs", typ)
	}
	return found, nil
}

func c07Guards(e *env, stmts []ast.Stmt) (guards [][2]string, calls [][]string, resVar string) {
	var walk func(n ast.Node)
	walk = func(n ast.Node) {
		ast.Inspect(n, func(x ast.Node) bool {
			switch v := x.(type) {
			case *ast.FuncLit:
				return false
			case *ast.IfStmt:
				if len(v.Body.List) == 1 {
					if r, ok := v.Body.List[0].(*ast.ReturnStmt); ok && len(r.Results) == 1 {
						guards = append(guards, [2]string{src(e, v.Cond), src(e, r.Results[0])})
					}
				}
			case *ast.AssignStmt:
				if len(v.Rhs) == 1 {
					if c, ok := v.Rhs[0].(*ast.CallExpr); ok {
						if se, ok := c.Fun.(*ast.SelectorExpr); ok && src(e, se.X) == "ringct" && se.Sel.Name == "ScalarmultKey" && resVar == "" && len(v.Lhs) > 0 {
							resVar = src(e, v.Lhs[0])
						}
					}
				}
			case *ast.CallExpr:
				if se, ok := v.Fun.(*ast.SelectorExpr); ok && src(e, se.X) == "ringct" {
					c := []string{se.Sel.Name}
					for _, a := range v.Args {
						c = append(c, src(e, a))
					}
					calls = append(calls, c)
				}
			}
			return true
		})
	}
	for _, st := range stmts {
		walk(st)
	}
	return
}

func c07Facts(e *env) (string, error) {
	sem, err := e.funcDecl("types/tx_utxo.go", "UTXOTransaction", "checkTxSemantic")
	if err != nil {
		return "", err
	}
	var b strings.Builder
	pairs := func(name, doc string, gs [][2]string) {
		var xs []string
		for _, g := range gs {
			xs = append(xs, "("+leanStr(g[0])+", "+leanStr(g[1])+")")
		}
		fmt.Fprintf(&b, "/-- %s -/\ndef %s : List (String × String) :=\n  [%s]\n\n", doc, name, strings.Join(xs, ",\n   "))
	}
	uc, err := c07Clause(e, sem, "*UTXOInput")
	if err != nil {
		return "", err
	}
	ug, calls, resVar := c07Guards(e, uc.Body)
	pairs("utxoInputGuards", "`case *UTXOInput:` of checkTxSemantic ("+e.pos(uc)+"): every `if C { return R }` in source order, as (C, R)", ug)
	var cs []string
	for _, c := range calls {
		var as []string
		for _, a := range c[1:] {
			as = append(as, leanStr(a))
		}
		cs = append(cs, "("+leanStr(c[0])+", ["+strings.Join(as, ", ")+"])")
	}
	fmt.Fprintf(&b, "/-- calls of package ringct in that clause, in source order (nested calls after their enclosing call): (function, arguments) -/\ndef utxoInputRingctCalls : List (String × List String) :=\n  [%s]\n\n", strings.Join(cs, ",\n   "))
	fmt.Fprintf(&b, "/-- the variable the result of `ringct.ScalarmultKey` is assigned to in that clause -/\ndef subgroupResultVar : String := %s\n\n", leanStr(resVar))
	ac, err := c07Clause(e, sem, "*AccountInput")
	if err != nil {
		return "", err
	}
	ag, _, _ := c07Guards(e, ac.Body)
	pairs("accountInputGuards", "`case *AccountInput:` of checkTxSemantic ("+e.pos(ac)+"): every `if C { return R }` in source order, as (C, R)", ag)
	cb, err := e.funcDecl("types/tx_utxo.go", "UTXOTransaction", "CheckBasic")
	if err != nil {
		return "", err
	}
	recv := "tx"
	if cb.Recv != nil && len(cb.Recv.List) == 1 && len(cb.Recv.List[0].Names) == 1 {
		recv = cb.Recv.List[0].Names[0].Name
	}
	var order []string
	ast.Inspect(cb.Body, func(n ast.Node) bool {
		if c, ok := n.(*ast.CallExpr); ok {
			if se, ok := c.Fun.(*ast.SelectorExpr); ok {
				if id, ok := se.X.(*ast.Ident); ok && id.Name == recv {
					order = append(order, leanStr(se.Sel.Name))
				}
			}
		}
		return true
	})
	fmt.Fprintf(&b, "/-- method calls on the receiver in (*UTXOTransaction).CheckBasic (%s), in source order -/\ndef checkBasicCalls : List String :=\n  [%s]\n", e.pos(cb), strings.Join(order, ", "))
	e.facts = append(e.facts, fact{Name: "C07Facts.utxoInputGuards", Value: ug, Pos: e.pos(uc)}, fact{Name: "C07Facts.accountInputGuards", Value: ag, Pos: e.pos(ac)})
	return b.String(), nil
}
