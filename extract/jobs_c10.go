package main

// C10 (T2): structural facts about libs/trie, rendered as Lean data (Gen.TrieFacts).
//   - call sites outside libs/trie, vendor/ and *_test.go of the entry points whose reach decides severity:
//     NewDifferenceIterator, NewUnionIterator, VerifyProof (expected: none), GetKey, NodeIterator (expected: state dumps)
//   - the embedding threshold of hasher.store (`len(h.tmp) < N`), the hash length a reference must have in decodeRef
//     (`len(val) == N`), dbm.IdealBatchSize (the flush threshold of Database.Commit / Cap), Cap's preimage flush threshold

import (
	"fmt"
	"go/ast"
	"go/token"
	"strconv"
	"strings"
)

func init() { register("TrieFacts", c10Facts) }

// c10Int evaluates an integer literal expression made of literals, * and parentheses
func c10Int(x ast.Expr) (int64, error) {
	switch v := x.(type) {
	case *ast.BasicLit:
		if v.Kind == token.INT {
			return strconv.ParseInt(v.Value, 0, 64)
		}
	case *ast.ParenExpr:
		return c10Int(v.X)
	case *ast.BinaryExpr:
		a, err := c10Int(v.X)
		if err != nil {
			return 0, err
		}
		b, err := c10Int(v.Y)
		if err != nil {
			return 0, err
		}
		switch v.Op {
		case token.MUL:
			return a * b, nil
		case token.ADD:
			return a + b, nil
		}
	}
	return 0, fmt.Errorf("constant expression not in the supported subset")
}

// c10Compare finds, in function fn of file rel, the comparison `<lhs-source> <op> <int>` and returns the integer
func c10Compare(e *env, rel, recv, fn, lhs string, op token.Token) (int64, error) {
	fd, err := e.funcDecl(rel, recv, fn)
	if err != nil {
		return 0, err
	}
	var found []int64
	ast.Inspect(fd, func(n ast.Node) bool {
		if b, ok := n.(*ast.BinaryExpr); ok && b.Op == op && strings.Join(strings.Fields(c12Src(e, b.X)), "") == lhs {
			if v, err := c10Int(b.Y); err == nil {
				found = append(found, v)
			}
		}
		return true
	})
	if len(found) != 1 {
		return 0, fmt.Errorf("anchor comparison `%s %s <int>` found %d times in %s:%s", lhs, op, len(found), rel, fn)
	}
	return found[0], nil
}

func c10Outside(callers []string) []string {
	var out []string
	for _, c := range callers {
		if !strings.HasPrefix(c, "libs/trie/") {
			out = append(out, c)
		}
	}
	return out
}

func c10Facts(e *env) (string, error) {
	var sb strings.Builder
	for _, m := range []string{"NewDifferenceIterator", "NewUnionIterator", "VerifyProof", "GetKey", "NodeIterator"} {
		callers, err := nonTestCallers(e, m)
		if err != nil {
			return "", err
		}
		callers = c10Outside(callers)
		// positions carry line numbers: keep the files only, so that an unrelated edit above a call site does not move the fact
		files := map[string]bool{}
		var fl []string
		for _, c := range callers {
			f := c
			if i := strings.Index(f, ":"); i >= 0 {
				f = f[:i]
			}
			if !files[f] {
				files[f] = true
				fl = append(fl, f)
			}
		}
		name := strings.ToLower(m[:1]) + m[1:] + "CallerFiles"
		sb.WriteString(fmt.Sprintf("/-- files outside libs/trie, vendor/ and *_test.go with a call `x.%s(...)` -/\ndef %s : List String := %s\n\n", m, name, leanStrList(fl)))
		e.facts = append(e.facts, fact{Module: "TrieFacts", Kind: "nocaller", Name: m, Value: fl})
	}
	emb, err := c10Compare(e, "libs/trie/hasher.go", "hasher", "store", "len(h.tmp)", token.LSS)
	if err != nil {
		return "", err
	}
	ref, err := c10Compare(e, "libs/trie/node.go", "", "decodeRef", "len(val)", token.EQL)
	if err != nil {
		// two comparisons of len(val) exist (== 0 and == 32): take the non-zero one
		fd, err2 := e.funcDecl("libs/trie/node.go", "", "decodeRef")
		if err2 != nil {
			return "", err2
		}
		ref = -1
		ast.Inspect(fd, func(n ast.Node) bool {
			if b, ok := n.(*ast.BinaryExpr); ok && b.Op == token.EQL && strings.Join(strings.Fields(c12Src(e, b.X)), "") == "len(val)" {
				if v, err := c10Int(b.Y); err == nil && v != 0 {
					ref = v
				}
			}
			return true
		})
		if ref < 0 {
			return "", err
		}
	}
	// dbm.IdealBatchSize
	f, err := e.parse("libs/db/types.go")
	if err != nil {
		return "", err
	}
	ideal := int64(-1)
	ast.Inspect(f, func(n ast.Node) bool {
		if vs, ok := n.(*ast.ValueSpec); ok {
			for i, nm := range vs.Names {
				if nm.Name == "IdealBatchSize" && i < len(vs.Values) {
					if v, err := c10Int(vs.Values[i]); err == nil {
						ideal = v
					}
				}
			}
		}
		return true
	})
	if ideal < 0 {
		return "", fmt.Errorf("anchor constant dbm.IdealBatchSize not found in libs/db/types.go")
	}
	pre, err := c10Compare(e, "libs/trie/database.go", "Database", "Cap", "db.preimagesSize", token.GTR)
	if err != nil {
		return "", err
	}
	sb.WriteString(fmt.Sprintf("/-- hasher.store: a node whose encoding is shorter than this is embedded in its parent (`len(h.tmp) < N`) -/\ndef embedThreshold : Nat := %d\n\n", emb))
	sb.WriteString(fmt.Sprintf("/-- decodeRef: a string of exactly this length is a hash reference (`len(val) == N`) -/\ndef hashRefLength : Nat := %d\n\n", ref))
	sb.WriteString(fmt.Sprintf("/-- dbm.IdealBatchSize: Database.Commit / Cap flush the write batch when it holds at least this many value bytes -/\ndef idealBatchSize : Nat := %d\n\n", ideal))
	sb.WriteString(fmt.Sprintf("/-- Database.Cap flushes the preimages only when they exceed this many bytes -/\ndef capPreimageFlush : Nat := %d\n", pre))
	for _, kv := range []struct {
		k string
		v int64
	}{{"capPreimageFlush", pre}, {"embedThreshold", emb}, {"hashRefLength", ref}, {"idealBatchSize", ideal}} {
		e.facts = append(e.facts, fact{Module: "TrieFacts", Kind: "const", Name: kv.k, Value: kv.v})
	}
	return sb.String(), nil
}
