package main

// C09: state/state_object.go, state/statedb.go, state/journal.go — T2 facts
//   deepCopyClonesTokens      (stateObject).deepCopy ranges over a `.Tokens` map (clones it) instead of passing Account by value only
//   zeroInsertBeforeJournal   (stateObject).SetTokenBalance assigns `….Tokens[…] = …` BEFORE its journal.append call
//   journalled                for every mutator: does its body call `journal.append` (every mutator appends an undo entry)
//   revertLoopInclusive       journal.revert's loop condition is `i >= snapshot`
// The driver instantiates the model's Cfg from the first two facts, so a repaired tree is compared with the repaired model.

import (
	"fmt"
	"go/ast"
	"go/token"
	"strings"
)

func c09HasJournalAppend(n ast.Node) (found bool, pos token.Pos) {
	ast.Inspect(n, func(x ast.Node) bool {
		if ce, ok := x.(*ast.CallExpr); ok {
			if se, ok := ce.Fun.(*ast.SelectorExpr); ok && se.Sel.Name == "append" {
				if in, ok := se.X.(*ast.SelectorExpr); ok && in.Sel.Name == "journal" {
					if !found {
						found, pos = true, ce.Pos()
					}
				}
			}
		}
		return true
	})
	return
}

func c09Bool(b bool) string {
	if b {
		return "true"
	}
	return "false"
}

func init() {
	register("C09Facts", func(e *env) (string, error) {
		var sb strings.Builder
		// --- deepCopy
		fd, err := e.funcDecl("state/state_object.go", "stateObject", "deepCopy")
		if err != nil {
			return "", err
		}
		clones := false
		ast.Inspect(fd.Body, func(x ast.Node) bool {
			if rs, ok := x.(*ast.RangeStmt); ok {
				if se, ok := rs.X.(*ast.SelectorExpr); ok && se.Sel.Name == "Tokens" {
					clones = true
				}
			}
			return true
		})
		e.facts = append(e.facts, fact{"C09Facts", "callsite", "deepCopyClonesTokens", clones, e.pos(fd)})
		fmt.Fprintf(&sb, "/-- `%s`: deepCopy ranges over the Tokens map (clones it) -/\ndef deepCopyClonesTokens : Bool := %s\n\n", e.pos(fd), c09Bool(clones))
		// --- SetTokenBalance
		fd, err = e.funcDecl("state/state_object.go", "stateObject", "SetTokenBalance")
		if err != nil {
			return "", err
		}
		_, apos := c09HasJournalAppend(fd.Body)
		zeroIns := false
		ast.Inspect(fd.Body, func(x ast.Node) bool {
			if as, ok := x.(*ast.AssignStmt); ok && len(as.Lhs) == 1 {
				if ie, ok := as.Lhs[0].(*ast.IndexExpr); ok {
					if se, ok := ie.X.(*ast.SelectorExpr); ok && se.Sel.Name == "Tokens" && (apos == token.NoPos || as.Pos() < apos) {
						zeroIns = true
					}
				}
			}
			return true
		})
		e.facts = append(e.facts, fact{"C09Facts", "callorder", "zeroInsertBeforeJournal", zeroIns, e.pos(fd)})
		fmt.Fprintf(&sb, "/-- `%s`: SetTokenBalance writes a Tokens entry before journalling -/\ndef zeroInsertBeforeJournal : Bool := %s\n\n", e.pos(fd), c09Bool(zeroIns))
		// --- every mutator journals
		type m struct{ file, recv, name string }
		muts := []m{
			{"state/state_object.go", "stateObject", "SetBalance"}, {"state/state_object.go", "stateObject", "SetTokenBalance"},
			{"state/state_object.go", "stateObject", "SetNonce"}, {"state/state_object.go", "stateObject", "SetCredits"},
			{"state/state_object.go", "stateObject", "SetCode"}, {"state/state_object.go", "stateObject", "SetState"},
			{"state/state_object.go", "stateObject", "touch"},
			{"state/statedb.go", "StateDB", "Suicide"}, {"state/statedb.go", "StateDB", "AddLog"}, {"state/statedb.go", "StateDB", "AddRefund"},
			{"state/statedb.go", "StateDB", "SubRefund"}, {"state/statedb.go", "StateDB", "createObject"}, {"state/statedb.go", "StateDB", "AddPreimage"},
		}
		sb.WriteString("/-- mutator, whether its body calls `journal.append` -/\ndef journalled : List (String × Bool) := [\n")
		for i, x := range muts {
			fd, err := e.funcDecl(x.file, x.recv, x.name)
			if err != nil {
				return "", err
			}
			has, _ := c09HasJournalAppend(fd.Body)
			e.facts = append(e.facts, fact{"C09Facts", "callsite", "journalled:" + x.name, has, e.pos(fd)})
			sep := ","
			if i == len(muts)-1 {
				sep = ""
			}
			fmt.Fprintf(&sb, "  (\"%s\", %s)%s  -- %s\n", x.name, c09Bool(has), sep, e.pos(fd))
		}
		sb.WriteString("]\n\n")
		// --- journal.revert loop bound
		fd, err = e.funcDecl("state/journal.go", "journal", "revert")
		if err != nil {
			return "", err
		}
		incl := false
		ast.Inspect(fd.Body, func(x ast.Node) bool {
			if fs, ok := x.(*ast.ForStmt); ok {
				if be, ok := fs.Cond.(*ast.BinaryExpr); ok && be.Op == token.GEQ {
					if id, ok := be.Y.(*ast.Ident); ok && id.Name == "snapshot" {
						incl = true
					}
				}
			}
			return true
		})
		e.facts = append(e.facts, fact{"C09Facts", "const", "revertLoopInclusive", incl, e.pos(fd)})
		fmt.Fprintf(&sb, "/-- `%s`: the undo loop runs while `i >= snapshot` -/\ndef revertLoopInclusive : Bool := %s\n\n", e.pos(fd), c09Bool(incl))
		// --- the undo log of the flat kv backend: order of writes
		callPos := func(n ast.Node, recvSel, name string) token.Pos {
			var p token.Pos = token.NoPos
			ast.Inspect(n, func(x ast.Node) bool {
				if ce, ok := x.(*ast.CallExpr); ok {
					if id, ok := ce.Fun.(*ast.Ident); ok && id.Name == name && recvSel == "" && p == token.NoPos {
						p = ce.Pos()
					}
					if se, ok := ce.Fun.(*ast.SelectorExpr); ok && se.Sel.Name == name {
						if recvSel == "" {
							if p == token.NoPos {
								p = ce.Pos()
							}
						} else if id, ok := se.X.(*ast.Ident); ok && id.Name == recvSel {
							if p == token.NoPos {
								p = ce.Pos()
							}
						} else if in, ok := se.X.(*ast.SelectorExpr); ok && in.Sel.Name == recvSel {
							if p == token.NoPos {
								p = ce.Pos()
							}
						}
					}
				}
				return true
			})
			return p
		}
		fd, err = e.funcDecl("state/statedb.go", "StateDB", "Commit")
		if err != nil {
			return "", err
		}
		sw := callPos(fd.Body, "", "SaveWAL")
		var loop token.Pos = token.NoPos
		ast.Inspect(fd.Body, func(x ast.Node) bool {
			if rs, ok := x.(*ast.RangeStmt); ok && loop == token.NoPos {
				if se, ok := rs.X.(*ast.SelectorExpr); ok && se.Sel.Name == "stateObjects" {
					loop = rs.Pos()
				}
			}
			return true
		})
		saveFirst := sw != token.NoPos && loop != token.NoPos && sw < loop
		e.facts = append(e.facts, fact{"C09Facts", "callorder", "saveWalBeforeObjects", saveFirst, e.pos(fd)})
		fmt.Fprintf(&sb, "/-- `%s`: StateDB.Commit truncates the undo log and stores the height (SaveWAL) before any object is written -/\ndef saveWalBeforeObjects : Bool := %s\n\n", e.pos(fd), c09Bool(saveFirst))
		fd, err = e.funcDecl("state/keyvalue.go", "wrappedTrie", "Commit")
		if err != nil {
			return "", err
		}
		wp, bp := callPos(fd.Body, "db", "saveWAL"), callPos(fd.Body, "bat", "Commit")
		lp, sp, dp := callPos(fd.Body, "db", "Load"), callPos(fd.Body, "bat", "Set"), callPos(fd.Body, "bat", "Delete")
		walFirst := wp != token.NoPos && bp != token.NoPos && wp < bp && lp != token.NoPos && lp < sp && lp < dp
		e.facts = append(e.facts, fact{"C09Facts", "callorder", "walSyncedBeforeBatch", walFirst, e.pos(fd)})
		fmt.Fprintf(&sb, "/-- `%s`: wrappedTrie.Commit reads the old value before it queues the update, and syncs the undo log (saveWAL) before the batch is written -/\ndef walSyncedBeforeBatch : Bool := %s\n\n", e.pos(fd), c09Bool(walFirst))
		fd, err = e.funcDecl("state/keyvalue.go", "", "NewKeyValueDBWithCache")
		if err != nil {
			return "", err
		}
		rebuildPlusOne := false
		ast.Inspect(fd.Body, func(x ast.Node) bool {
			if cc, ok := x.(*ast.CaseClause); ok && len(cc.List) == 1 {
				if be, ok := cc.List[0].(*ast.BinaryExpr); ok && be.Op == token.ADD {
					if id, ok := be.X.(*ast.Ident); ok && id.Name == "height" {
						if bl, ok := be.Y.(*ast.BasicLit); ok && bl.Value == "1" && callPos(cc, "", "rebuildLastState") != token.NoPos {
							rebuildPlusOne = true
						}
					}
				}
			}
			return true
		})
		e.facts = append(e.facts, fact{"C09Facts", "callsite", "rebuildWhenOneAhead", rebuildPlusOne, e.pos(fd)})
		fmt.Fprintf(&sb, "/-- `%s`: the backend replays the undo log exactly when the stored height is the block-store height + 1 -/\ndef rebuildWhenOneAhead : Bool := %s\n", e.pos(fd), c09Bool(rebuildPlusOne))
		return sb.String(), nil
	})
}
