package main

// C16 (T2): the guards that keep peer-controlled values away from partial operations (index, make, nil dereference)
// on the consensus receive path.  Each fact is the source text of the guarding condition that precedes the partial
// operation inside the named function (empty if no such guard precedes it).

import (
	"fmt"
	"go/ast"
	"strings"
)

type c16Guard struct {
	name, file, recv, fn string
	// the partial operation: a substring of the source text of a statement
	op string
	// substrings that the condition of a preceding if-statement (ending in return/continue) must contain
	want []string
}

var c16Guards = []c16Guard{
	{"addPartIndexLower", "types/part_set.go", "PartSet", "AddPart", "ps.parts[part.Index]", []string{"part.Index < 0"}},
	{"addPartIndexUpper", "types/part_set.go", "PartSet", "AddPart", "ps.parts[part.Index]", []string{"part.Index >= ps.total"}},
	{"proposalTotalStateMachine", "consensus/state.go", "ConsensusState", "defaultSetProposal", "types.NewPartSetFromHeader(proposal.BlockPartsHeader)", []string{"proposal.BlockPartsHeader.Total <= 0", "proposal.BlockPartsHeader.Total > cs.maxBlockParts()"}},
	{"proposalTotalReactor", "consensus/reactor.go", "ConsensusReactor", "Receive", "ps.SetHasProposal(msg.Proposal)", []string{"msg.Proposal == nil", "msg.Proposal.BlockPartsHeader.Total <= 0", "msg.Proposal.BlockPartsHeader.Total > maxParts"}},
	{"blockComponentsNil", "consensus/state.go", "ConsensusState", "addProposalBlockPart", "cs.ProposalBlock.Recover != cs.recover", []string{"cs.ProposalBlock.Header == nil", "cs.ProposalBlock.Data == nil", "cs.ProposalBlock.LastCommit == nil"}},
	{"faultEvidenceEmptyCommitState", "consensus/state.go", "ConsensusState", "checkFaultValEvidence", "lastCommit.FirstPrecommit().Round", []string{"lastCommit == nil", "lastCommit.FirstPrecommit() == nil"}},
	{"faultEvidenceNilKeysState", "consensus/state.go", "ConsensusState", "checkFaultValEvidence", "cs.LastValidators.GetProposer().Address.String()", []string{"ev.Proposer == nil", "ev.FaultVal == nil"}},
	{"faultEvidenceNilKeysValidation", "consensus/validation.go", "", "VerifyFaultValEvidence", "status.LastValidators.GetProposer().Address.String()", []string{"fvi.Proposer == nil", "fvi.FaultVal == nil"}},
	{"lastCommitNilFirstHeight", "consensus/state.go", "ConsensusState", "addVote", "cs.LastCommit.AddVote(vote)", []string{"cs.LastCommit == nil"}},
	{"faultEvidenceEmptyCommitValidation", "consensus/validation.go", "", "VerifyFaultValEvidence", "lastCommit.FirstPrecommit().Round", []string{"lastCommit == nil", "lastCommit.FirstPrecommit() == nil"}},
}

// guardedBy reports, for the first statement whose text contains op, which of the wanted substrings occur in the
// condition of some earlier if-statement (at any nesting level on the way) whose body ends in return/continue/panic-free exit.
func guardedBy(e *env, fd *ast.FuncDecl, op string, want []string) (found bool, have []string) {
	var conds []string
	done := false
	var walk func(stmts []ast.Stmt)
	walk = func(stmts []ast.Stmt) {
		for _, st := range stmts {
			if done {
				return
			}
			if ifs, ok := st.(*ast.IfStmt); ok {
				// does the op occur inside this if (cond, body or else)? then descend
				if strings.Contains(src(e, ifs), op) && !strings.Contains(src(e, ifs.Cond), op) {
					exits := false
					if n := len(ifs.Body.List); n > 0 {
						switch ifs.Body.List[n-1].(type) {
						case *ast.ReturnStmt, *ast.BranchStmt:
							exits = true
						}
					}
					_ = exits
					walk(ifs.Body.List)
					if blk, ok := ifs.Else.(*ast.BlockStmt); ok && !done {
						walk(blk.List)
					}
					continue
				}
				if strings.Contains(src(e, ifs.Cond), op) {
					done = true
					return
				}
				if n := len(ifs.Body.List); n > 0 {
					switch ifs.Body.List[n-1].(type) {
					case *ast.ReturnStmt, *ast.BranchStmt:
						conds = append(conds, src(e, ifs.Cond))
					}
				}
				continue
			}
			if strings.Contains(src(e, st), op) {
				// nested blocks (switch/case/for) are searched textually in order
				switch s := st.(type) {
				case *ast.SwitchStmt:
					walk(s.Body.List)
				case *ast.TypeSwitchStmt:
					walk(s.Body.List)
				case *ast.CaseClause:
					walk(s.Body)
				case *ast.ForStmt:
					walk(s.Body.List)
				case *ast.RangeStmt:
					walk(s.Body.List)
				case *ast.BlockStmt:
					walk(s.List)
				default:
					done = true
				}
				if done {
					return
				}
			}
		}
	}
	walk(fd.Body.List)
	if !done {
		return false, nil
	}
	all := strings.Join(conds, " ## ")
	for _, w := range want {
		if strings.Contains(all, w) {
			have = append(have, w)
		}
	}
	return true, have
}

func init() {
	register("C16Facts", func(e *env) (string, error) {
		var sb strings.Builder
		sb.WriteString("/-- a guard fact: name, whether the partial operation was found, the wanted guard conditions, those that precede it -/\n")
		sb.WriteString("structure Guard where\n  name : String\n  opFound : Bool\n  want : List String\n  have_ : List String\nderiving Repr, DecidableEq\n\n")
		sb.WriteString("def guards : List Guard := [\n")
		for i, g := range c16Guards {
			fd, err := e.funcDecl(g.file, g.recv, g.fn)
			if err != nil {
				return "", err
			}
			found, have := guardedBy(e, fd, g.op, g.want)
			sep := ","
			if i == len(c16Guards)-1 {
				sep = ""
			}
			sb.WriteString(fmt.Sprintf("  { name := %s, opFound := %v, want := %s, have_ := %s }%s  -- %s:%s\n", c02Str(g.name), found, c02StrList(g.want), c02StrList(have), sep, g.file, g.fn))
			e.facts = append(e.facts, fact{Module: "C16Facts", Kind: "guard", Name: g.name, Value: map[string]interface{}{"found": found, "want": g.want, "have": have}, Pos: g.file + ":" + g.fn})
		}
		sb.WriteString("]\n")
		// lock discipline of the vote containers the reactor's gossip goroutines read while the state machine writes them: every
		// exported method (that is not a getter of an immutable field) takes the receiver's mutex before anything else
		// (an unlocked map read concurrent with a write is a fatal runtime error no recover can catch)
		sb.WriteString("\n/-- (type.method, first statements lock the receiver's mutex) for every exported method -/\n")
		sb.WriteString("def lockFacts : List (String × Bool) := [\n")
		var rows []string
		for _, t := range []struct{ file, recv string }{{"types/vote_set.go", "VoteSet"}, {"consensus/types/height_vote_set.go", "HeightVoteSet"}, {"types/part_set.go", "PartSet"}} {
			f, err := e.parse(t.file)
			if err != nil {
				return "", err
			}
			for _, d := range f.Decls {
				fd, ok := d.(*ast.FuncDecl)
				if !ok || fd.Recv == nil || len(fd.Recv.List) != 1 || !fd.Name.IsExported() || fd.Body == nil {
					continue
				}
				rt := fd.Recv.List[0].Type
				if st, ok := rt.(*ast.StarExpr); ok {
					rt = st.X
				}
				if id, ok := rt.(*ast.Ident); !ok || id.Name != t.recv {
					continue
				}
				locks := false
				for i, st := range fd.Body.List {
					if i > 2 {
						break
					}
					if es, ok := st.(*ast.ExprStmt); ok {
						txt := src(e, es)
						if strings.HasSuffix(txt, ".mtx.Lock()") || strings.HasSuffix(txt, ".mtx.RLock()") {
							locks = true
						}
					}
				}
				rows = append(rows, fmt.Sprintf("  (%s, %v)", c02Str(t.recv+"."+fd.Name.Name), locks))
				e.facts = append(e.facts, fact{Module: "C16Facts", Kind: "lock", Name: t.recv + "." + fd.Name.Name, Value: locks, Pos: t.file})
			}
		}
		sb.WriteString(strings.Join(rows, ",\n") + "\n]\n")
		// the goroutines AddPeer starts per peer, and whether the routine's body contains a recover (it would have to be a
		// deferred function literal calling recover(), or a deferred call of a method that does)
		addPeer, err := e.funcDecl("consensus/reactor.go", "ConsensusReactor", "AddPeer")
		if err != nil {
			return "", err
		}
		var gor []string
		var ginspectErr error
		ast.Inspect(addPeer.Body, func(n ast.Node) bool {
			gs, ok := n.(*ast.GoStmt)
			if !ok {
				return true
			}
			name := "?"
			if sel, ok := gs.Call.Fun.(*ast.SelectorExpr); ok {
				name = sel.Sel.Name
			}
			hasRecover := false
			if fd, err := e.funcDecl("consensus/reactor.go", "ConsensusReactor", name); err != nil {
				ginspectErr = err
			} else {
				txt := src(e, fd.Body)
				hasRecover = strings.Contains(txt, "recover()") || strings.Contains(txt, "_recover")
			}
			gor = append(gor, fmt.Sprintf("  (%s, %v)", c02Str(name), hasRecover))
			e.facts = append(e.facts, fact{Module: "C16Facts", Kind: "peer-goroutine", Name: name, Value: hasRecover, Pos: "consensus/reactor.go:AddPeer"})
			return true
		})
		if ginspectErr != nil {
			return "", ginspectErr
		}
		sb.WriteString("\n/-- (routine started with `go` in AddPeer, its body recovers) -/\n")
		sb.WriteString("def peerGoroutines : List (String × Bool) := [\n" + strings.Join(gor, ",\n") + "\n]\n")
		// the places where a bit array taken from a message is stored in / combined with the peer state, and whether Receive
		// validates the message's bit arrays (consistency of Bits and Elems) before dispatching on the channel
		recv, err := e.funcDecl("consensus/reactor.go", "ConsensusReactor", "Receive")
		if err != nil {
			return "", err
		}
		rtxt := src(e, recv.Body)
		if i := strings.Index(rtxt, "switch chID"); i >= 0 {
			rtxt = rtxt[:i]
		}
		validated := strings.Contains(rtxt, "ValidateBasic") || strings.Contains(rtxt, "validBitArray") || strings.Contains(rtxt, "validateMsg")
		var stores []string
		for _, st := range []struct{ fn, op string }{
			{"ApplyCommitStepMessage", "ps.PRS.ProposalBlockParts = msg.BlockParts"},
			{"ApplyProposalPOLMessage", "ps.PRS.ProposalPOL = msg.ProposalPOL"},
			{"ApplyVoteSetBitsMessage", "otherVotes.Or(msg.Votes)"},
		} {
			fd, err := e.funcDecl("consensus/reactor.go", "PeerState", st.fn)
			if err != nil {
				return "", err
			}
			txt := src(e, fd.Body)
			if !strings.Contains(txt, st.op) {
				return "", fmt.Errorf("C16Facts: %s no longer contains `%s`", st.fn, st.op)
			}
			local := strings.Contains(txt[:strings.Index(txt, st.op)], "ValidateBasic") || strings.Contains(txt[:strings.Index(txt, st.op)], "validBitArray")
			stores = append(stores, fmt.Sprintf("  (%s, %s, %v)", c02Str(st.fn), c02Str(st.op), validated || local))
			e.facts = append(e.facts, fact{Module: "C16Facts", Kind: "peer-bitarray-store", Name: st.fn, Value: validated || local, Pos: "consensus/reactor.go:" + st.fn})
		}
		sb.WriteString("\n/-- (function, statement that stores/combines a bit array from a message, a validation of it precedes) -/\n")
		sb.WriteString("def peerBitArrayStores : List (String × String × Bool) := [\n" + strings.Join(stores, ",\n") + "\n]\n")
		return sb.String(), nil
	})
}
